#!/usr/bin/env python3
"""Entry point: check.py <property id> [--tier quick|thorough] [--replay path]

exit 0: property held on everything explored; exit 1 + "VIOLATION property=<id> replay=<path>" lines;
exit 2: machinery failure (never a verdict)."""
import os
import sys
import traceback

ROOT = os.path.dirname(os.path.dirname(os.path.abspath(__file__)))
sys.path.insert(0, ROOT)
sys.path.insert(0, os.environ.get("VERIF_REPO", "/repo"))   # the tree under test (default: /repo's working tree)
os.environ.setdefault("PYTHONHASHSEED", "0")


def main(argv):
    if len(argv) < 2:
        print(__doc__)
        return 2
    prop = argv[1]
    if "--tier" in argv:
        os.environ["VERIF_TIER"] = argv[argv.index("--tier") + 1]
    from checks import lib
    from checks import registry
    fn = registry.CHECKS.get(prop)
    if fn is None:
        print(f"unknown property {prop}")
        return 2
    if "--replay" in argv:
        from checks import replay
        return replay.replay(prop, argv[argv.index("--replay") + 1])
    rep = lib.Report(prop)
    try:
        fn(rep)
    except Exception as ex:  # any crash of the machinery is exit 2, never a verdict
        traceback.print_exc()
        rep.machinery.append(f"{type(ex).__name__}: {ex}")
    return rep.finish()


if __name__ == "__main__":
    sys.exit(main(sys.argv))
