"""Whole-client scenarios: scripts -> real AirTouch4/AirTouch5 object on the simulated console ->
recorded traces -> TLC validation against SocketContract + ClientContract (Trace_Client)."""
from . import lib


def run_batch(rep, scripts, module="Trace_Client", target="client", cfg=None):
    """scripts: list of (sid, proto, script, meta); meta may carry "opts" for the harness world."""
    jobs = [(sid, proto, target, meta.get("opts"), sc) for sid, proto, sc, meta in scripts]
    res = lib.run_scripts(jobs, chunk=4)
    traces, metas = [], {}
    for sid, proto, sc, meta in scripts:
        tr, err = res[sid]
        metas[sid] = (proto, sc, meta, tr)
        if err:
            rep.machinery.append(f"script {sid}: {err}")
            continue
        traces.append({"id": sid, "proto": proto, "ev": lib.lower_client(tr)})
    verdicts, stats = lib.validate(module, traces, cfg=cfg) if cfg else lib.validate(module, traces)
    rep.add_tlc(stats)
    rep.traces += len(traces)
    return verdicts, metas
