from . import p_socket_checks as S

CHECKS = {
    "C01": S.check_c01, "C02": S.check_c02, "C07": S.check_c07, "C13": S.check_c13,
    "C15": S.check_c15, "C16": S.check_c16,
}
