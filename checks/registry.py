from . import p_socket_checks as S
from . import p_wire as W
from . import p_client_checks as A
from . import p_discovery as D

CHECKS = {
    "C01": S.check_c01, "C02": S.check_c02, "C07": S.check_c07, "C13": S.check_c13,
    "C15": S.check_c15, "C16": S.check_c16,
    "C05": W.check_c05, "C06": W.check_c06, "C03": W.check_c03, "C17": W.check_c17,
    "C09": A.check_c09, "C08": A.check_c08, "C14": A.check_c14, "C10": A.check_c10, "C12": A.check_c12, "C11": A.check_c11, "C04": A.check_c04, "C19": A.check_c19, "C18": D.check_c18,
}
