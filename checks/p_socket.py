"""Socket-level checks (C01 C02 C07 C13 C15 C16): scripts -> real AirTouchSocket -> recorded traces
-> TLC validation against SocketContract (through SocketFront)."""
from . import gen_socket as G
from . import lib


def run_batch(rep, scripts, module="Trace_Socket"):
    """scripts: list of (sid, proto, script, meta).  Returns {sid: [[clause, n], ...]}."""
    jobs = [(sid, proto, "socket", None, sc) for sid, proto, sc, meta in scripts]
    res = lib.run_scripts(jobs)
    traces = []
    metas = {}
    for sid, proto, sc, meta in scripts:
        tr, err = res[sid]
        metas[sid] = (proto, sc, meta, tr)
        if err:
            rep.machinery.append(f"script {sid}: {err}")
            continue
        traces.append({"id": sid, "proto": proto,
                       "ev": lib.lower_socket(tr, enc_of=meta.get("enc"), blockers=meta.get("blockers", ()))})
    verdicts, stats = lib.validate(module, traces)
    rep.add_tlc(stats)
    rep.traces += len(traces)
    return verdicts, metas


def judge(rep, verdicts, metas, also=()):
    """Report the clauses of rep.prop; clauses of other properties are collateral."""
    collateral = {}
    for sid, viol in verdicts.items():
        proto, sc, meta, tr = metas[sid]
        for clause, n in viol:
            props = lib.props_of(clause)
            if rep.prop in props or clause in also:
                rep.violation(clause, f"script={sid} event={n}",
                              {"key": clause, "clause": clause, "proto": proto, "script": sc, "meta": meta,
                               "event": n, "trace_tail": tr[-12:] if tr else []})
            else:
                collateral[clause] = collateral.get(clause, 0) + 1
    rep.extra.setdefault("collateral_clauses_of_other_properties", {}).update(collateral)


def selftest(rep):
    """Binding demonstration: a healthy recorded trace with one wire byte flipped, and one with a
    deliver line dropped, must be rejected by the contract; otherwise the run is a machinery failure."""
    import random
    b = G.Builder("at4", random.Random(1))
    b.preamble()
    b.op(op="quiesce")
    b.op(op="resolve", how="ok")
    b.op(op="quiesce")
    b.send(G.POL_IDEM)
    b.op(op="quiesce")
    b.feed("good")
    b.op(op="quiesce")
    res = lib.run_scripts([(0, "at4", "socket", None, b.script)])
    tr, err = res[0]
    if err:
        rep.machinery.append("selftest: " + err)
        return
    good = lib.lower_socket(tr)
    flipped = [dict(e) for e in good]
    # one bit of the last payload byte of the frame that was written, however many write() calls carried it
    ws = [e for e in flipped if e["e"] == "write"]
    total = sum(len(e["b"]) for e in ws)
    off = total - 3
    for e in ws:
        if off < len(e["b"]):
            b = list(e["b"])
            b[off] ^= 1
            e["b"] = b
            break
        off -= len(e["b"])
    dropped = [e for e in good if e["e"] != "deliver"]
    traces = [{"id": 0, "proto": "at4", "ev": good}, {"id": 1, "proto": "at4", "ev": flipped},
              {"id": 2, "proto": "at4", "ev": dropped}]
    v, st = lib.validate("Trace_Socket", traces, shards=1)
    rep.add_tlc(st)
    ok = v[0] == [] and v[1] != [] and v[2] != []
    rep.extra["selftest"] = {"healthy": v[0], "wire_byte_flipped": v[1], "deliver_dropped": v[2], "passed": ok}
    if not ok:
        rep.machinery.append(f"selftest failed: {v}")


def gen_scripts(profile, n, base_seed, protos=("at4", "at5"), n_ops=(12, 40)):
    import random
    rng = random.Random(base_seed)
    out = []
    for i in range(n):
        proto = protos[i % len(protos)]
        sd = rng.randrange(1 << 30)
        sc, meta = G.random_script(sd, proto, n_ops=rng.randrange(*n_ops), profile=profile)
        out.append((f"{profile}-{proto}-{sd}", proto, sc, meta))
    return out
