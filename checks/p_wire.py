"""Wire-level checks: C05 (status decoding), C03 (round trip), C06 (checksum), C17 (unknown / malformed)."""
import json
import os
import random
import time

from harness import tlc

from . import gen_msgs as GM
from . import lib

DEC_CFG = "INIT Init\nNEXT Next\nINVARIANT Done\nCHECK_DEADLOCK FALSE\n"


def _decode_chunk(args):
    import sys
    sys.path.insert(0, os.environ.get("VERIF_REPO", "/repo"))
    from harness import codec
    proto, items = args
    out = []
    for cid, typ, payload, tag in items:
        out.append({"id": cid, "proto": proto, "type": typ, "payload": payload, "obs": codec.decode(proto, typ, payload), "tag": tag,
                    "must": tag.endswith("!must")})
    return out


def _judge_chunk(args):
    k, cases = args
    os.makedirs(lib.SCRATCH, exist_ok=True)
    path = os.path.join(lib.SCRATCH, f"dec_{os.getpid()}_{k}_{int(time.time() * 1000) % 100000}.json")
    slim = [{"id": c["id"], "proto": c["proto"], "type": c["type"], "payload": c["payload"], "obs": c["obs"], "must": c.get("must", False)} for c in cases]
    with open(path, "w") as f:
        json.dump({"traces": slim}, f, separators=(",", ":"))
    try:
        r = tlc.run("Check_Decode", DEC_CFG, env={"TRACE_FILE": path}, workers=1, heap="3g", timeout=3000)
    finally:
        try:
            os.remove(path)
        except OSError:
            pass
    tot = r.prints("TOTAL")
    if r.error or not tot or tot[0][1] != len(cases):
        return k, None, r.out[-2500:], 0, 0
    bad = {v[1]: v[2][0][0] for v in r.prints("VERDICT")}
    return k, bad, "", tot[0][3], r.distinct


def must(items):
    """Cases built only from documented values (and, AT5, strides >= the known layout with arbitrary
    tail bytes): the statement's stride clause requires them to be decoded, not rejected."""
    for kind, typ, payload, tag in items:
        yield kind, typ, payload, tag + "!must"


def decode_and_judge(rep, proto, items, label):
    """items: iterable of (kind, type, payload, tag).  Decodes with the real decoders (process pool),
    judges with TLC (Check_Decode) in shards.  Returns number of cases."""
    import multiprocessing as mp
    from concurrent.futures import ThreadPoolExecutor
    items = [(i, typ, payload, tag) for i, (kind, typ, payload, tag) in enumerate(items)]
    if not items:
        return 0
    n = len(items)
    chunks = [(proto, items[i:i + 4000]) for i in range(0, n, 4000)]
    cases = []
    with mp.get_context("fork").Pool(lib.NCPU) as pool:
        for out in pool.imap(_decode_chunk, chunks):
            cases += out
    shards = [(k, cases[i:i + 25000]) for k, i in enumerate(range(0, n, 25000))]
    rejected = 0
    nbad = 0
    with ThreadPoolExecutor(max_workers=lib.NCPU) as ex:
        for k, bad, err, rej, dist in ex.map(_judge_chunk, shards):
            if bad is None:
                rep.machinery.append(f"Check_Decode shard {k} of {label} failed: {err[-800:]}")
                continue
            rejected += rej
            rep.states += dist
            rep.transitions += dist
            for cid, verdict in bad.items():
                c = cases[cid]
                nbad += 1
                key = f"{proto}:{c['tag'].split('/')[0]}:{verdict}"
                rep.violation(verdict, f"{proto} type=0x{c['type']:02x} tag={c['tag']} payload={bytes(c['payload']).hex()}",
                              {"key": key, "clause": verdict, "proto": proto, "type": c["type"], "payload": c["payload"],
                               "obs": c["obs"], "tag": c["tag"], "kind": c["tag"].split("/")[0], "field": _field_of(proto, c)})
    rep.evaluations += n
    rep.part(label, proto=proto, cases=n, rejected_by_decoder=rejected, not_accepted=nbad)
    if cases:
        rep.sample({"kind": label, "case": {k: cases[len(cases) // 2][k] for k in ("proto", "type", "payload", "obs")}}, cap=4)
    return n


def _field_of(proto, c):
    """Which documented not-available field a DefinedValueForNA case concerns (for known findings)."""
    kind = c["tag"].split("/")[0]
    p = c["payload"]
    found = set()
    if kind == "AcStatus" and proto == "at4":
        for i in range(0, len(p) - 7, 8):
            if p[i + 4] == 0xFF:
                found.add("temperature")
    if kind == "AcStatus" and proto == "at5" and len(p) >= 8:
        stride = (p[4] << 8) | p[5]
        if stride >= 8:
            for i in range(8, len(p) - 5, stride):
                if p[i + 2] > 250:
                    found.add("set_point")
                if (((p[i + 4] & 7) << 8) | p[i + 5]) > 2000:
                    found.add("temperature")
    if len(found) == 1:
        return found.pop()
    return "+".join(sorted(found))


def check_c05(rep):
    q = rep.tier == "quick"
    rng = random.Random(lib.seed())
    for proto in ("at4", "at5"):
        decode_and_judge(rep, proto, GM.byte_sweep(proto), "every byte position x 256 values of every base payload")
        decode_and_judge(rep, proto, must(GM.count_sweep(proto)), "record counts 0..16, announced strides (zero and arbitrary tail bytes), ability formats; must be decoded")
        decode_and_judge(rep, proto, GM.field_cross(proto), "cross product of documented power x mode x fan x flags")
        decode_and_judge(rep, proto, GM.temperature_codes(proto), "all 2048 temperature codes and set-point codes")
        decode_and_judge(rep, proto, GM.pair_sweep(proto, rng, per_pair=400 if q else None,
                                                 kinds=None if q else None),
                         "adjacent byte pairs (%s)" % ("400 sampled values per pair" if q else "all 65536 values per pair"))
    rep.exhaustive = not q
    rep.assumptions += [
        "reference readings AT4Msg/AT5Msg are transcribed from the vendor documents v1.6 / v1.2 (timer and quick-timer layouts from the repository docstrings)",
        "a rejected payload (any exception) is accepted, as the property statement allows; a decoded value must equal the reference, "
        "or its sensor-gated variant (no temperature/set-point for a zone whose record says 'no sensor'); where the reference is "
        "not-available the decoded field must be absent",
    ]


# ---------------------------------------------------------------------------------------------
# C06

def _crc_cases(args):
    import sys
    sys.path.insert(0, os.environ.get("VERIF_REPO", "/repo"))
    from harness import codec
    lo, hi = args
    out = []
    for i in range(lo, hi):
        if i < 256:
            b = [i]
        else:
            j = i - 256
            b = [j >> 8, j & 255]
        obs = codec.crc("at4", b)
        val = []
        if i % 97 == 0 and isinstance(obs, list):
            val.append([obs, codec.crc_validate("at4", b, obs)])
            val.append([[obs[0] ^ 1, obs[1]], codec.crc_validate("at4", b, [obs[0] ^ 1, obs[1]])])
            val.append([[obs[0]], _exc(codec.crc_validate("at4", b, [obs[0]]))])
            val.append([obs + [0], _exc(codec.crc_validate("at4", b, obs + [0]))])
        swept, acc = False, []
        if i in (65, 256 + 0x1234, 256 + 0xB080, 65791):     # all 65536 check-byte values for a few buffers
            swept = True
            for chk in range(65536):
                if codec.crc_validate("at4", b, [chk >> 8, chk & 255]) is True:
                    acc.append([chk >> 8, chk & 255])
        out.append({"id": i, "b": b, "obs": obs, "val": val, "swept": swept, "acc": acc})
    return out


def _exc(r):
    return r["exc"] if isinstance(r, dict) else r


def _fold3(args):
    """All 3-byte strings with first byte in [lo, hi): real calculate() against the fold with TLC's table."""
    import sys
    sys.path.insert(0, os.environ.get("VERIF_REPO", "/repo"))
    from harness import codec
    lo, hi, t8, sample = args
    calc = codec.registry("at5").checksum_calculator.calculate
    bad = []
    n = 0
    rng = random.Random(lo * 7919 + 1)
    for a in range(lo, hi):
        ra = (0xFFFF >> 8) ^ t8[(0xFFFF ^ a) & 255]
        for b in range(256):
            rb = (ra >> 8) ^ t8[(ra ^ b) & 255]
            if sample and rng.random() > sample:
                continue
            for c in range(256):
                rc = (rb >> 8) ^ t8[(rb ^ c) & 255]
                got = calc(bytes((a, b, c)))
                n += 1
                if got[0] != rc >> 8 or got[1] != rc & 255 or len(got) != 2:
                    if len(bad) < 5:
                        bad.append([a, b, c, list(got)])
    return n, bad


def check_c06(rep):
    import multiprocessing as mp
    from . import p_socket as PS
    from . import gen_socket as G
    q = rep.tier == "quick"
    # (a1) the derived table is the bit-serial definition (TLC, all 65536 register values)
    r = tlc.run("MC_Crc", "INIT Init\nNEXT Next\nINVARIANT Lemma\nCHECK_DEADLOCK FALSE\n", workers=lib.NCPU, heap="4g", timeout=900)
    rep.add_tlc({"states": r.distinct, "transitions": r.generated})
    rep.part("TableLemma + vendor anchors (MC_Crc)", states=r.distinct, violated=r.violated_invariants())
    if r.error or r.violated_invariants() or r.distinct != 65536:
        rep.machinery.append("MC_Crc did not complete: " + r.out[-600:])
        return
    # (a2) calculate()/validate() on all 1- and 2-byte strings, judged by TLC
    with mp.get_context("fork").Pool(lib.NCPU) as pool:
        parts = pool.map(_crc_cases, [(i, min(i + 4112, 65792)) for i in range(0, 65792, 4112)])
    cases = [c for p in parts for c in p]
    path = os.path.join(lib.SCRATCH, f"crc_{os.getpid()}.json")
    os.makedirs(lib.SCRATCH, exist_ok=True)
    with open(path, "w") as f:
        json.dump({"traces": cases}, f, separators=(",", ":"))
    try:
        r = tlc.run("Check_Crc", DEC_CFG, env={"TRACE_FILE": path}, workers=1, heap="4g", timeout=1800)
    finally:
        os.remove(path)
    tot = r.prints("TOTAL")
    t8 = r.prints("T8")
    if r.error or not tot or tot[0][1] != len(cases) or not t8:
        rep.machinery.append("Check_Crc failed: " + r.out[-800:])
        return
    rep.add_tlc({"states": r.distinct, "transitions": r.generated})
    rep.evaluations += len(cases)
    for v in r.prints("VERDICT"):
        c = cases[v[1]]
        rep.violation(v[2][0][0], f"bytes={c['b']} calculate={c['obs']}", {"key": "crc", "clause": v[2][0][0], "case": c})
    rep.part("calculate()/validate() on all 1- and 2-byte strings judged by TLC", cases=len(cases), not_accepted=tot[0][2])
    rep.sample({"kind": "crc case", "case": cases[300]})
    # (a3) all 3-byte strings: fold with the table TLC printed
    t8 = t8[0][1]
    sample = 0.02 if q else None
    with mp.get_context("fork").Pool(lib.NCPU) as pool:
        res = pool.map(_fold3, [(i, i + 16, t8, sample) for i in range(0, 256, 16)])
    n3 = sum(n for n, _ in res)
    rep.evaluations += n3
    for n, bad in res:
        for b in bad:
            rep.violation("WrongChecksum", f"bytes={b[:3]} calculate={b[3]}", {"key": "crc3", "clause": "WrongChecksum", "case": b})
    rep.part("calculate() on 3-byte strings against the fold with TLC's table", cases=n3, exhaustive=not q)
    # (b) damaged frames are never delivered and the connection is re-established
    rng = random.Random(lib.seed())
    scripts = []
    for proto in ("at4", "at5"):
        # a header-only frame first (no payload at all: every covered byte is header), then every base payload
        kinds = {"HeaderOnly": [(0x2D if proto == "at4" else 0x41, [])]}
        kinds.update(GM.bases(proto))
        for ki, (kind, lst) in enumerate(kinds.items()):
            typ, payload = lst[0]
            from harness import console as C
            fr = C.from_console(proto, typ, payload, pid=7)
            lo = 2 if proto == "at4" else 14          # first byte covered by the checksum
            bits = [(i, b) for i in range(lo, len(fr)) for b in range(8)]
            pats = []
            single = bits if (not q or ki < 2) else rng.sample(bits, 60)
            pats += [[x] for x in single]
            nd = (3000 if ki < 3 else 300) if not q else 40
            for _ in range(nd):
                pats.append(rng.sample(bits, 2))
            for _ in range(120 if q else 1500):            # bursts up to 16 bits
                L = rng.randrange(2, 17)
                start = rng.randrange(lo * 8, len(fr) * 8 - L)
                mid = [start + k for k in range(1, L - 1) if rng.random() < 0.5]
                pats.append([(p // 8, p % 8) for p in [start] + mid + [start + L - 1]])
            # corruption confined to the two check bytes: the byte-swap pattern and (thorough) all 65535 patterns
            hi, lo_ = fr[-2], fr[-1]
            chk_pats = [((hi ^ lo_) << 8) | (hi ^ lo_)] + ([p_ for p_ in range(1, 65536)] if (not q and ki == 0)
                                                          else [rng.randrange(1, 65536) for _ in range(30)])
            for cp in chk_pats:
                if cp:
                    pats.append([(len(fr) - 2, b_) for b_ in range(8) if (cp >> 8) >> b_ & 1] +
                                [(len(fr) - 1, b_) for b_ in range(8) if (cp & 255) >> b_ & 1])
            for pat in pats:
                f = list(fr)
                for i, b in pat:
                    f[i] ^= 1 << b
                b_ = G.Builder(proto, rng)
                b_.preamble()
                b_.op(op="quiesce")
                b_.op(op="resolve", how="ok")
                b_.op(op="quiesce")
                b_.op(op="feed", b=f)
                b_.op(op="quiesce")
                b_.heal()
                b_.shutdown()
                scripts.append((f"c06-{proto}-{kind}-{len(scripts)}", proto, b_.script,
                                {"enc": {}, "blockers": [], "proto": proto, "kind": kind, "pattern": pat}))
    # (c) frames on which the checksum register passes through 0x0000 / 0xFFFF at a chosen prefix (the
    # end of the header, the end of the covered bytes): intact they must be delivered; with the check
    # bytes replaced by the checksum of a suffix only (what a computation that restarts at byte k
    # would produce - a corruption confined to the two check bytes) they must not
    from harness import console as C
    special = []
    for proto in ("at4", "at5"):
        for typ, payload in (GM.bases(proto)["AcStatus"][0], (0x1F, C.error_info(0, b"E" * 93)), (0x1F, C.version(False, b"1.0"))):
            frm0 = 0x90 if typ == 0x1F else 0x80
            for target in (0x0000, 0xFFFF):
                n = len(payload)
                hit = None
                for frm in [frm0] + [x for x in range(256) if x != frm0]:
                    for pid in range(256):
                        if C.crc16(bytes([0xB0, frm, pid, typ, n >> 8, n & 255])) == target:
                            hit = (frm, pid)
                            break
                    if hit:
                        break
                if hit:
                    special.append((proto, C.frame(proto, 0xB0, hit[0], hit[1], typ, payload), f"header_crc={target:04x}"))
            # whole covered span: the last two payload bytes of an unknown-type frame chosen so that the check bytes are 0000 / FFFF
            for target in (0x0000, 0xFFFF):
                body = [rng.randrange(256) for _ in range(6)]
                done = False
                for x in range(256):
                    for y in range(256):
                        pl = body + [x, y]
                        if C.crc16(bytes([0xB0, 0x80, 9, 0x55, 0, len(pl)] + pl)) == target:
                            special.append((proto, C.frame(proto, 0xB0, 0x80, 9, 0x55, pl), f"frame_crc={target:04x}"))
                            done = True
                            break
                    if done:
                        break
    n_special = 0
    for proto, fr, what in special:
        lo = 2 if proto == "at4" else 14
        cov = fr[lo:-2]
        variants = [("intact", list(fr))]
        for k in range(1, len(cov)):
            c = C.crc16(bytes(cov[k:]))
            if [c >> 8, c & 255] != fr[-2:]:
                variants.append((f"restart_at_{k}", fr[:-2] + [c >> 8, c & 255]))
        if q:
            variants = variants[:1] + [v for v in variants[1:] if v[0] in ("restart_at_6", "restart_at_1", "restart_at_5", "restart_at_7")] + rng.sample(variants[1:], min(4, len(variants) - 1))
        for name, f in variants:
            b_ = G.Builder(proto, rng)
            if name == "intact":
                b_.op(op="mark", tag="strict")
            b_.preamble()
            b_.op(op="quiesce")
            b_.op(op="resolve", how="ok")
            b_.op(op="quiesce")
            b_.op(op="feed", b=f)
            b_.op(op="quiesce")
            b_.heal()
            b_.shutdown()
            n_special += 1
            scripts.append((f"c06-{proto}-special-{len(scripts)}", proto, b_.script,
                            {"enc": {}, "blockers": [], "proto": proto, "kind": what, "pattern": name}))
    verdicts, metas = PS.run_batch(rep, scripts)
    PS.judge(rep, verdicts, metas, also=("SpuriousReset", "FrameNotDelivered"))
    rep.part("frames damaged by single-bit, double-bit and burst (<=16 bit) errors, then heal phase", scripts=len(scripts) - n_special)
    rep.part("frames whose checksum register passes through 0000 / FFFF at the end of the header or of the covered bytes: intact "
             "(must be delivered) and with check bytes of a restarted computation (must not)", frames=len(special), scripts=n_special)
    rep.sample({"kind": "damaged frame script", "proto": scripts[0][1], "pattern": scripts[0][3]["pattern"], "script": scripts[0][2][:9]})
    rep.assumptions += ["'all byte strings' rests on the implementation being a left fold over bytes: 1-, 2- and 3-byte strings exercise every (register, byte) step; longer strings are covered by the frames checked in C03/C13",
                        "the reference CRC is bit-serial CRC-16/MODBUS in Crc16.tla, anchored to the vendor example frames"]


# ---------------------------------------------------------------------------------------------
# C03: every message frames and parses back identically

def _has(x, needles):
    if isinstance(x, str):
        return x in needles
    if isinstance(x, dict):
        return any(_has(v, needles) for v in x.values())
    if isinstance(x, (list, tuple)):
        return any(_has(v, needles) for v in x)
    return False


def reference_readings(rep, proto, items):
    """Reference readings (as message descriptions) of (type, payload) pairs; undecodable or
    not-available ones are left out."""
    out = []
    for k in range(0, len(items), 3000):
        chunk = items[k:k + 3000]
        path = os.path.join(lib.SCRATCH, f"read_{os.getpid()}_{k}.json")
        os.makedirs(lib.SCRATCH, exist_ok=True)
        with open(path, "w") as f:
            json.dump({"traces": [{"id": i, "proto": proto, "type": t, "payload": list(p)} for i, (t, p) in enumerate(chunk)]}, f, separators=(",", ":"))
        try:
            r = tlc.run("Check_Read", DEC_CFG, env={"TRACE_FILE": path}, workers=1, heap="4g", timeout=1800)
        finally:
            os.remove(path)
        got = r.prints("READ")
        if r.error or len(got) != len(chunk):
            rep.machinery.append("Check_Read failed: " + r.out[-600:])
            return out
        rep.add_tlc({"states": r.distinct, "transitions": r.generated})
        for v in got:
            d = v[2]
            if isinstance(d, dict) and not _has(d, ("NA", "Undecodable")):
                out.append(d)
    return out


def check_c03(rep):
    from . import gen_socket as G
    from . import p_socket as PS
    q = rep.tier == "quick"
    rng = random.Random(lib.seed())
    PS.selftest(rep)
    scripts = []
    n_msgs = 0
    for proto in ("at4", "at5"):
        args = [{"msg": d} for d in GM.control_descs(proto, rng, n_random=150 if q else 3000)]
        sp = GM.status_payloads(proto, rng, per_kind=100 if q else 1500)
        if q:
            # always: range ends, every base payload, every record count / stride / name position; sampled: the rest
            keep = [x for x in sp if x[2].endswith("/edge") or x[2].endswith("/base") or "/count" in x[2]]
            rest = [x for x in sp if not (x[2].endswith("/edge") or x[2].endswith("/base") or "/count" in x[2])]
            sp = keep + rng.sample(rest, min(len(rest), 600))
        args += [{"decoded": {"type": t, "payload": p}} for t, p, tag in sp]
        # the same payloads once more, as objects built from the REFERENCE reading (TLC, Check_Read): the
        # round trip then does not depend on the decoder under test for its input
        refs = reference_readings(rep, proto, [(t, p) for t, p, tag in sp])
        args += [{"msg": d} for d in refs]
        rng.shuffle(args)
        for i in range(0, len(args), 12):
            b = G.Builder(proto, rng)
            b.op(op="mark", tag="strict")
            b.preamble()
            b.op(op="quiesce")
            b.op(op="resolve", how="ok")
            b.op(op="quiesce")
            for a in args[i:i + 12]:
                b.call("send", [a, G.POL_IDEM])
                b.op(op="quiesce")
                b.op(op="echo_written")
                b.op(op="quiesce")
                n_msgs += 1
            b.call("close")
            b.op(op="quiesce")
            b.op(op="residual")
            scripts.append((f"c03-{proto}-{i}", proto, b.script, {"enc": {}, "blockers": [], "proto": proto}))
    verdicts, metas = PS.run_batch(rep, scripts)
    PS.judge(rep, verdicts, metas, also=("NoFabrication", "FrameNotDelivered", "DeliverWithoutFrame", "SpuriousReset", "PromptAtQuiesce"))
    # status-type objects are the image of decode over intact, fully documented console payloads - the
    # very frames the encoder produces for them; a payload the decoder refuses is a frame of the send
    # path that the receive path does not accept (and leaves the round trip without its input)
    refused = 0
    for sid, (proto, sc, meta, tr) in metas.items():
        calls = [o for o in sc if o.get("op") == "call" and o.get("method") == "send"]
        for ev in tr or []:
            if ev["e"] == "skipped" and ev.get("what") == "call":
                refused += 1
                rep.violation("DocumentedFrameRejected", f"script={sid} {ev.get('why')}",
                              {"key": "DocumentedFrameRejected", "clause": "DocumentedFrameRejected", "proto": proto, "script": sc,
                               "meta": meta, "why": ev.get("why")})
    rep.evaluations += n_msgs
    rep.part("messages sent through the real send path, written bytes fed back into the real receive path", scripts=len(scripts), messages=n_msgs)
    rep.sample({"kind": "round trip script", "proto": scripts[0][1], "script": scripts[0][2][:12]})
    rep.assumptions += [
        "control/request objects are built from enumerated descriptions; status-type objects are what the real decoder makes of intact console payloads (the image of decode), so that equality after a round trip is meaningful",
        "the frame on the wire must read (reference framing + AT4Msg/AT5Msg) as the submitted object projects, and the delivered header/message must equal the reference reading of the same bytes",
    ]


# ---------------------------------------------------------------------------------------------
# C17: unknown and malformed input is tolerated, never misread

def check_c17(rep):
    from harness import console as C
    from . import gen_socket as G
    from . import p_socket as PS
    q = rep.tier == "quick"
    rng = random.Random(lib.seed())
    PS.selftest(rep)
    known = {"at4": {0x1F, 0x2A, 0x2B, 0x2C, 0x2D, 0x36, 0x37}, "at5": {0x1F, 0xC0}}
    ext_known = {"at4": {0xFF10, 0xFF11, 0xFF12, 0xFF20, 0xFF30}, "at5": {0xFF10, 0xFF11, 0xFF13, 0xFF30, 0xFF49}}
    c0_known = {0x20, 0x21, 0x22, 0x23, 0x32, 0x33}
    scripts = []

    def strict_script(proto, frames):
        b = G.Builder(proto, rng)
        b.op(op="mark", tag="strict")
        b.preamble()
        b.op(op="quiesce")
        b.op(op="resolve", how="ok")
        b.op(op="quiesce")
        for f in frames:
            b.op(op="feed", b=f)
            if rng.random() < 0.5:
                b.op(op="quiesce")
        b.op(op="quiesce")
        b.feed("good")                  # a later intact frame is still received on the same connection
        b.op(op="quiesce")
        b.call("close")
        b.op(op="quiesce")
        b.op(op="residual")
        return b.script

    # (a) well-formed frames of unknown type / sub-type: delivered as unsupported, connection undisturbed
    n_unknown = 0
    for proto in ("at4", "at5"):
        frames = []
        for typ in range(256):
            if typ in known[proto]:
                continue
            for ln in ([0, 1, 7, 64] if q else [0, 1, 2, 3, 7, 8, 16, 31, 64]):
                frames.append(C.frame(proto, 0xB0, 0x80, typ, typ, [rng.randrange(256) for _ in range(ln)]))
        ids = [i for i in ([0x0000, 0x0001, 0xFF00, 0xFF12 if proto == "at5" else 0xFF13, 0xFF14, 0xFF31, 0xFFFF, 0x1234] +
                           [rng.randrange(65536) for _ in range(60 if q else 2000)]) if i not in ext_known[proto]]
        for sid in ids:
            ln = rng.choice([0, 1, 5, 20])
            frames.append(C.frame(proto, 0xB0, 0x90, 1, 0x1F, [sid >> 8, sid & 255] + [rng.randrange(256) for _ in range(ln)]))
        if proto == "at5":
            for sub in range(256):
                if sub in c0_known:
                    continue
                # sub-header shapes (normal length, repeat length, repeat count): each part absent / present
                shapes = [(0, 0, 0), (0, 4, 2), (3, 5, 1), (10, 0, 0), (1, 0, 0), (4, 0, 3), (0, 1, 0), (2, 1, 4), (0, 8, 16)]
                for (nl, rl, cnt) in (shapes[:4] + [shapes[4 + sub % 5]] if q else shapes):
                    body = [rng.randrange(256) for _ in range(nl + rl * cnt)]
                    frames.append(C.frame(proto, 0xB0, 0x80, 2, 0xC0, [sub, 0, nl >> 8, nl & 255, rl >> 8, rl & 255, cnt >> 8, cnt & 255] + body))
            # status records longer than the known layout are read from their known prefix
            for extra in range(1, 5):
                frames.append(C.from_console("at5", 0xC0, C.at5_zone_status([{"n": 1, "power": 1, "sensor": 1, "sp": 140, "temp_raw": 733}], rlen=8 + extra)))
                frames.append(C.from_console("at5", 0xC0, C.at5_ac_status([{"n": 0, "power": 1, "mode": 4, "fan": 3, "sp": 120}], rlen=10 + extra)))
                # several records per frame, and each such frame twice: a decoder that keeps state between
                # frames (logging the mismatch once, say) must still honour the stride the second time
                for _ in range(2):
                    frames.append(C.from_console("at5", 0xC0, GM.fill_tails(C.at5_zone_status(
                        [{"n": i, "power": 1 + 2 * (i % 2), "sensor": 1, "sp": 140 + i, "temp_raw": 733 + i, "pct": 10 * i} for i in range(3)],
                        rlen=8 + extra), 8, rng)))
                    frames.append(C.from_console("at5", 0xC0, GM.fill_tails(C.at5_ac_status(
                        [{"n": i, "power": 1, "mode": 4, "fan": 3, "sp": 120 + i} for i in range(2)], rlen=10 + extra), 10, rng)))
                    # the timer status records (AC number, on-timer, off-timer, four padding bytes = 9) likewise
                    frames.append(C.from_console("at5", 0xC0, GM.fill_tails(C.c0(
                        0x33, [[i] + C._timer((6 + i, 30 + i)) + C._timer((22, 15) if i != 1 else None) + [0, 0, 0, 0] for i in range(3)],
                        9 + extra), 9, rng)))
        n_unknown += len(frames)
        rng.shuffle(frames)
        for i in range(0, len(frames), 10):
            scripts.append((f"c17a-{proto}-{i}", proto, strict_script(proto, frames[i:i + 10]), {"enc": {}, "blockers": [], "proto": proto, "part": "a"}))

    # (b) arbitrary and mutated byte streams: nothing misread, nothing unhandled, the client recovers
    n_streams = 2500 if q else 60000
    for i in range(n_streams):
        proto = "at4" if i % 2 == 0 else "at5"
        kinds = GM.bases(proto)
        parts = []
        for _ in range(rng.randrange(1, 4)):
            r = rng.random()
            kind = rng.choice(list(kinds))
            typ, payload = rng.choice(kinds[kind])
            if r < 0.25:
                parts.append([rng.randrange(256) for _ in range(rng.randrange(1, 60))])
            elif r < 0.65:                    # 1-3 flipped bits in the payload, check bytes recomputed
                p = list(payload)
                for _ in range(rng.randrange(1, 4)):
                    if p:
                        k = rng.randrange(len(p))
                        p[k] ^= 1 << rng.randrange(8)
                parts.append(C.from_console(proto, typ, p, pid=rng.randrange(256)))
            elif r < 0.75:                    # wrong announced length, check bytes consistent
                p = list(payload)
                if rng.random() < 0.5 and p:
                    p = p[:rng.randrange(len(p))]
                else:
                    p = p + [rng.randrange(256) for _ in range(rng.randrange(1, 6))]
                parts.append(C.from_console(proto, typ, p, pid=rng.randrange(256)))
            elif r < 0.85:                    # truncated frame
                f = C.from_console(proto, typ, payload)
                parts.append(f[:rng.randrange(1, len(f))])
            else:
                parts.append(C.from_console(proto, typ, payload, pid=rng.randrange(256)))
        if proto == "at5" and i % 5 == 1:
            # sub-headers of KNOWN 0xC0 sub-types that announce more than the known layout uses: non-repeating
            # data in front of status records, control records longer than four bytes, with the bytes present
            sub = rng.choice([0x21, 0x23, 0x33, 0x20, 0x22])
            known = {0x21: 8, 0x23: 10, 0x33: 9, 0x20: 4, 0x22: 4}[sub]
            nl = rng.choice([0, 0, 1, 2, 5])
            rl = known + rng.choice([0, 0, 1, 3])
            cnt = rng.randrange(1, 4)
            base_rec = {0x21: [0x41, 0x80 | 50, 150, 0x80, 2, 231, 0, 0], 0x23: [0x10, 0x42, 120, 0, 2, 218, 0, 0, 0, 0],
                        0x33: [0, 0x87, 30, 0x80, 0, 0, 0, 0, 0], 0x20: [2, 0x80, 50, 0], 0x22: [0x20, 0x4F, 0x40, 120]}[sub]
            body = [rng.randrange(256) for _ in range(nl)]
            for k in range(cnt):
                rec = list(base_rec) + [rng.randrange(256) for _ in range(rl - known)]
                rec[0] = (rec[0] & 0xF0) | k
                body += rec
            parts.insert(rng.randrange(len(parts) + 1),
                         C.frame(proto, 0xB0, 0x80, rng.randrange(256), 0xC0, [sub, 0, nl >> 8, nl & 255, rl >> 8, rl & 255, cnt >> 8, cnt & 255] + body))
        b = G.Builder(proto, rng)
        b.preamble(raising_sub=rng.random() < 0.15)
        b.op(op="quiesce")
        b.op(op="resolve", how="ok")
        b.op(op="quiesce")
        for part in parts:
            b.op(op="feed", b=part)
            if rng.random() < 0.4:
                b.op(op="step", k=rng.randrange(1, 4))
        if rng.random() < 0.2:
            b.op(op="peer_eof")
        b.op(op="quiesce")
        b.heal()
        b.shutdown()
        scripts.append((f"c17b-{proto}-{i}", proto, b.script, {"enc": {}, "blockers": [], "proto": proto, "part": "b"}))
    verdicts, metas = PS.run_batch(rep, scripts)
    PS.judge(rep, verdicts, metas, also=("FrameNotDelivered", "HealNotReceiving", "HealNotConnected", "SpuriousReset"))
    rep.part("well-formed frames of unknown type / sub-type / longer stride (strict: delivered as unsupported, no reset)", frames=n_unknown)
    rep.part("arbitrary and mutated byte streams followed by the heal phase", streams=n_streams)
    rep.sample({"kind": "unknown type script", "script": scripts[0][2][:9]})
    rep.sample({"kind": "mutated stream script", "script": scripts[-1][2][:9]})
    rep.assumptions += ["a frame whose reference reading is Undecodable or contains a not-available code may be delivered or rejected (reset); "
                        "an intact frame with a fully defined reading, if delivered, must be delivered as the reference reads it"]
