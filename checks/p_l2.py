"""SocketImpl (L2): exhaustive TLC runs of the implementation-shaped model against the contract, and
TLC-generated environment schedules replayed into the real socket."""
import random
import re
from concurrent.futures import ThreadPoolExecutor

from harness import tlc

from . import gen_socket as G

INVS = ["ContractHolds", "AtMostOne", "AbandonedClosed", "NoWedge", "NoGiveUp", "ClosedIsFinal", "QueueBound"]

BASE = dict(MaxConn=3, MaxTask=10, MaxMsg=2, MaxEnv=5, H=2, ConnSubs="FALSE", MsgSubs="FALSE", SubSends="FALSE", QCap=10,
            F_ENQ="TRUE", F_DRAIN="TRUE", F_ONE="TRUE", F_CLOSE="TRUE", F_CAP="TRUE", F_CLOCK="TRUE", F_WAITCLOSE="TRUE", F_REOPEN="TRUE", F_SOLO="TRUE", Stalls="FALSE", Record="FALSE")


def cfg(over=None, kinds="KindsBad", pols="PolMixed", invs=INVS, emit=False):
    d = dict(BASE)
    d.update(over or {})
    s = "CONSTANTS\n" + "".join(f"  {k} = {v}\n" for k, v in d.items())
    s += f"  Kinds <- {kinds}\n  Policies <- {pols}\n"
    s += "SPECIFICATION Spec\nCONSTRAINT Bound\n"
    s += "".join(f"INVARIANT {i}\n" for i in invs)
    if emit:
        s += "INVARIANT EmitScript\n"
    s += "CHECK_DEADLOCK FALSE\n"
    return s


def model_check(over=None, kinds="KindsBad", pols="PolMixed", timeout=1500, heap="12g", workers=16):
    r = tlc.run("MC_SocketImpl", cfg(over, kinds, pols), workers=workers, heap=heap, timeout=timeout)
    viol = re.findall(r"viol \|-> (<<.*?>>),", r.out)
    clause = ""
    if viol:
        m = re.search(r'"(\w+)"', viol[-1])
        clause = m.group(1) if m else ""
    return {"invariants_violated": r.violated_invariants(), "clause": clause, "states": r.distinct,
            "transitions": r.generated, "depth": r.depth, "wall": round(r.wall, 1),
            "complete": "Model checking completed" in r.out, "error": r.error, "timeout": r.rc == 124,
            "tail": r.out[-1500:] if (r.error or r.rc == 124) else ""}


def simulate_scripts(n, seed, over=None, kinds="KindsAll", pols="PolAll", depth=400, procs=8):
    """TLC -simulate on the recording model: environment scripts of random behaviours."""
    o = dict(MaxConn=4, MaxTask=18, MaxMsg=4, MaxEnv=10, ConnSubs="TRUE", MsgSubs="TRUE", SubSends="TRUE", Stalls="TRUE", Record="TRUE")
    o.update(over or {})
    per = max(1, (n + procs - 1) // procs)
    c = cfg(o, kinds, pols, invs=["ContractHolds"], emit=True)

    def one(k):
        r = tlc.run("MC_SocketImpl", c, workers=1, heap="2g", timeout=900, simulate=f"num={per}", depth=depth,
                    seed=seed * 1000 + k)
        return r

    scripts, seen, gen = [], set(), 0
    bad = []
    with ThreadPoolExecutor(max_workers=procs) as ex:
        for r in ex.map(one, range(procs)):
            gen += r.generated
            if r.violated_invariants() or r.error:
                bad.append(r.out[-2500:])
            for v in r.prints("SCRIPT"):
                key = repr(v[1])
                if key not in seen:
                    seen.add(key)
                    scripts.append(v[1])
    return scripts, gen, bad


def to_harness(l2, proto, seed=0):
    """L2 environment script -> harness script (+ heal phase and shutdown epilogue)."""
    rng = random.Random(seed)
    b = G.Builder(proto, rng)
    b.nmsg = 0
    b.preamble_subs(sending=True)       # the recording model runs with SubSends = TRUE
    msgs = {}
    for o in l2:
        k = o["op"]
        if k == "step":
            b.op(op="step", k=o["k"])
        elif k == "call":
            b.call(o["method"])
        elif k == "send":
            pol = {"policy": {"retries": o["retries"], "lifetime_ms": o["life"]}}
            b.nmsg = o["m"]
            msgs[o["m"]] = b.send(pol, kind=o["kind"])
        elif k == "cancel":         # the application cancels its own send() (suspended in drain() in the model)
            if o["m"] in msgs:
                b.op(op="cancel", id=msgs[o["m"]])
        elif k == "resolve":
            b.op(op="resolve", how=o["how"])
        elif k == "advance":
            b.op(op="advance", by=o["by"])
        elif k == "feed":
            b.nframe = o["id"]
            b.feed("good" if o["good"] else "crc")
        elif k in ("peer_reset", "peer_eof", "arm_fault", "quiesce", "pause", "resume"):
            b.op(op=k)
        elif k == "arm_pause":
            b.op(op="arm_pause", nth=1)
        elif k == "call_seq":       # `await s.close(); s.open_socket()` in one user coroutine
            i1, i2 = b.nid, b.nid + 1
            b.nid += 2
            b.op(op="call_seq", calls=[{"id": i1, "method": "close"}, {"id": i2, "method": "open_socket"}])
    b.heal()
    b.shutdown(k=rng.choice([None, 0, 1, 2, 3]))
    return b.script, {"enc": b.enc, "blockers": [], "proto": proto, "l2": l2}
