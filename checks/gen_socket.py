"""Script generators for socket-level scenarios (random, seeded).  Scripts are open loop; the
contract (TLA+) decides what each recorded execution means."""
import random

from harness import console

POL_IDEM = {"policy": {"retries": 2, "lifetime_ms": 30000}}
POL_NONIDEM = {"policy": {"retries": 0, "lifetime_ms": 30000}}
POL_CONN = {"policy": {"retries": 0, "lifetime_ms": 1000}}
POLICIES = [POL_IDEM, POL_NONIDEM, POL_CONN, {"policy": {"retries": 1, "lifetime_ms": 2000}}]

FANS = ["AUTO", "QUIET", "LOW", "MEDIUM", "HIGH", "POWERFUL", "TURBO"]


def msg(proto, i):
    """i-th distinguishable command message (distinct for i < 896 / 1792)."""
    if proto == "at4":
        return {"k": "AcControlMessage", "ac_number": i % 4, "power": "TURN_ON", "mode": "UNCHANGED",
                "fan_speed": FANS[(i // 128) % 7],
                "set_point_control": [{"k": "AcSetPointValue", "set_point": 16 + (i // 4) % 32}]}
    return {"k": "ControlStatusMessage", "sub_message": {"k": "AcControlMessage", "ac_control": [
        {"k": "AcControlData", "ac_number": i % 8, "power": "UNCHANGED", "mode": "UNCHANGED",
         "fan_speed": FANS[(i // 256) % 7], "set_point": [16000 + 500 * ((i // 8) % 32)]}]}}


def bad_msg(proto, i):
    """A message the encoder cannot encode (value out of the field's range): accepted, fails at write."""
    if proto == "at4":
        return {"k": "GroupControlMessage", "group_number": i % 16, "power": "UNCHANGED",
                "control_method": "TEMPERATURE", "setting": [{"k": "GroupSetPointControl", "set_point": 300 + i}]}
    return {"k": "ControlStatusMessage", "sub_message": {"k": "ZoneControlMessage", "zone_control": [
        {"k": "ZoneControlData", "zone_number": i % 16, "zone_power": "UNCHANGED",
         "zone_setting": [{"k": "ZoneSetPointControl", "set_point": [300000 + 1000 * i]}]}]}}


def unregistered_msg(i):
    return {"k": "UnsupportedMessage", "unsupported_id": 0x70 + i % 8, "raw_data": []}


def good_frame(proto, i):
    """An intact console->client frame (a foreign-addressed echo of a control message is enough for
    the transport-level contract; status frames are used by the API-level checks)."""
    if proto == "at4":
        return console.frame("at4", 0xB0, 0x80, i % 256, 0x2C, [0x80 | (i % 4), 0x10 * (i % 5) + 0x0F, 0x40 | (16 + i % 32), 0])
    return console.frame("at5", 0xB0, 0x80, i % 256, 0xC0,
                         [0x22, 0, 0, 0, 0, 4, 0, 1, 0x60 | (i % 8), 0x10 * (i % 5) + 0x0F, 0x40, 60 + i % 100])


def corrupt(frame, rng, how):
    f = list(frame)
    if how == "crc":
        k = rng.randrange(len(f) - 2, len(f))
        f[k] ^= 1 << rng.randrange(8)
    elif how == "bit":
        lo = 2 if len(f) < 20 else 14
        k = rng.randrange(lo, len(f) - 2)
        f[k] ^= 1 << rng.randrange(8)
    elif how == "prefix":
        f[0] ^= 0xFF
    elif how == "garbage":
        f = [rng.randrange(256) for _ in range(rng.randrange(8, 40))]
        f[0] = 0x00
    return f


class Builder:
    def __init__(self, proto, rng):
        self.proto = proto
        self.rng = rng
        self.script = []
        self.enc = {}
        self.blockers = []
        self.nid = 1
        self.nmsg = rng.randrange(0, 200)
        self.nframe = rng.randrange(0, 200)

    def op(self, **kw):
        # the way a link dies / an attempt fails: every OSError family a TCP stack reports
        if kw.get("op") in ("peer_reset", "arm_fault"):
            kw.setdefault("exc", self._xrng().choice(["reset", "reset", "timeout", "unreach", "netdown", "pipe"]))
        elif kw.get("op") in ("resolve", "resolve_all") and kw.get("how") == "refuse":
            kw.setdefault("exc", self._xrng().choice(["refused", "refused", "timeout", "unreach"]))
        self.script.append(kw)

    def _xrng(self):
        if not hasattr(self, "_xr"):
            import random as _r
            self._xr = _r.Random(len(self.script) * 7919 + self.nid)
        return self._xr

    def call(self, method, args=None, **kw):
        cid = self.nid
        self.nid += 1
        d = {"op": "call", "id": cid, "method": method}
        if args:
            d["args"] = args
        d.update(kw)
        self.script.append(d)
        return cid

    def send(self, policy=None, kind="ok"):
        pol = policy or self.rng.choice(POLICIES)
        if kind == "ok":
            m = msg(self.proto, self.nmsg)
            self.nmsg += 1
            return self.call("send", [{"msg": m}, pol])
        if kind == "bad":
            m = bad_msg(self.proto, self.nmsg)
            self.nmsg += 1
            cid = self.call("send", [{"msg": m}, pol])
            self.enc[cid] = "bad"
            return cid
        m = unregistered_msg(self.nmsg)
        self.nmsg += 1
        cid = self.call("send", [{"msg": m}, pol])
        self.enc[cid] = "bad"
        return cid

    def feed(self, how="good", cuts=0):
        fr = good_frame(self.proto, self.nframe)
        self.nframe += 1
        if how != "good":
            fr = corrupt(fr, self.rng, how)
        if cuts:
            pts = sorted(self.rng.sample(range(1, len(fr)), min(cuts, len(fr) - 1)))
            prev = 0
            for p in pts + [len(fr)]:
                self.op(op="feed", b=fr[prev:p])
                if self.rng.random() < 0.5:
                    self.op(op="step", k=self.rng.randrange(1, 3))
                prev = p
        else:
            self.op(op="feed", b=fr)

    def preamble(self, raising_sub=False, blocking=False, sending_sub=False):
        self.preamble_subs(sending=sending_sub)
        if raising_sub:
            self.op(op="sub", who="r", kind="message", raises=True)
            self.op(op="sub", who="rc", kind="connection", raises=True)
        self.call("open_socket")

    def preamble_subs(self, sending=False):
        self.op(op="sub", who="m", kind="message")
        self.op(op="sub", who="c", kind="connection")
        if sending:
            # a connection subscriber that submits a request whenever the link comes up (as the API layer does)
            m = {"k": "AcControlMessage", "ac_number": 0, "power": "TURN_OFF", "mode": "UNCHANGED", "fan_speed": "QUIET",
                 "set_point_control": []} if self.proto == "at4" else \
                {"k": "ControlStatusMessage", "sub_message": {"k": "AcControlMessage", "ac_control": [
                    {"k": "AcControlData", "ac_number": 0, "power": "TURN_OFF", "mode": "UNCHANGED", "fan_speed": "QUIET", "set_point": []}]}}
            self.op(op="sub", who="cs", kind="connection", sends={"msg": m, "policy": POL_CONN})

    def heal(self):
        self.op(op="quiesce")
        self.op(op="resume")      # "once the network behaves again": the console reads again
        self.op(op="quiesce")
        self.op(op="mark", tag="healbegin")
        self.op(op="auto", how="ok")
        self.op(op="resolve_all", how="ok")
        self.op(op="quiesce")
        for _ in range(4):
            self.op(op="advance", by=2125)
        self.op(op="quiesce")
        self.feed("good")
        self.send(POL_IDEM)
        self.op(op="quiesce")
        self.op(op="mark", tag="healend")

    def shutdown(self, k=None):
        self.call("close")
        if k is not None:
            self.op(op="step", k=k)
        else:
            self.op(op="quiesce")
        self.op(op="resume")         # a close waiting for a stalled buffer to drain may complete now
        self.op(op="resolve_all", how=self.rng.choice(["ok", "refuse"]))
        self.op(op="quiesce")
        self.op(op="advance", by=10000)
        self.op(op="resolve_all", how="ok")
        self.op(op="advance", by=125)
        self.send(POL_IDEM)
        self.op(op="quiesce")
        self.op(op="residual")


ADV = [125, 250, 500, 875, 1000, 1125, 1875, 2000, 2125, 5000, 29875, 30000, 30125]


def random_script(seed, proto="at4", n_ops=30, profile="mixed"):
    rng = random.Random(seed)
    b = Builder(proto, rng)
    b.preamble(raising_sub=(profile in ("faults", "mixed") and rng.random() < 0.3),
               sending_sub=(profile in ("faults", "mixed", "retry", "close") and rng.random() < 0.4))
    w = {
        "order":  dict(send=10, step=4, quiesce=3, ok=4, refuse=2, adv=3, good=1),
        "retry":  dict(send=8, step=4, quiesce=3, ok=4, refuse=2, adv=4, fault=5, reset=2, eof=1, good=1, stall=2, unstall=2),
        "faults": dict(send=5, step=5, quiesce=3, ok=5, refuse=3, adv=3, fault=3, reset=3, eof=3, good=3, stall=2, unstall=2,
                       badcrc=2, bit=2, prefix=1, garbage=2, bad=2, unreg=1, apireset=2, cutfeed=2),
        "queue":  dict(send=14, step=2, quiesce=2, ok=1, refuse=2, adv=5, bad=1, okstall=1, unstall=1),
        "close":  dict(send=5, step=4, quiesce=2, ok=4, refuse=3, adv=3, fault=2, reset=2, eof=1, good=2,
                       closeopen=2),
        "mixed":  dict(send=8, step=5, quiesce=3, ok=5, refuse=3, adv=4, fault=3, reset=2, eof=2, good=3,
                       badcrc=1, bit=1, garbage=1, bad=1, unreg=1, apireset=1, cutfeed=1, closeopen=1, stall=1, okstall=1, unstall=2),
    }[profile]
    kinds = list(w)
    weights = [w[k] for k in kinds]
    for _ in range(n_ops):
        k = rng.choices(kinds, weights)[0]
        if k == "send":
            b.send()
        elif k == "bad":
            b.send(kind="bad")
        elif k == "unreg":
            b.send(kind="unreg")
        elif k == "step":
            b.op(op="step", k=rng.randrange(1, 4))
        elif k == "quiesce":
            b.op(op="quiesce")
        elif k == "ok":
            b.op(op="resolve", how="ok")
        elif k == "refuse":
            b.op(op="resolve", how="refuse")
        elif k == "adv":
            b.op(op="advance", by=rng.choice(ADV))
        elif k == "fault":
            b.op(op="arm_fault", nth=rng.randrange(1, 4))
        elif k == "reset":
            b.op(op="peer_reset")
        elif k == "eof":
            b.op(op="peer_eof")
        elif k == "good":
            b.feed("good")
        elif k == "cutfeed":
            b.feed("good", cuts=rng.randrange(1, 4))
        elif k in ("badcrc",):
            b.feed("crc")
        elif k in ("bit", "prefix", "garbage"):
            b.feed(k)
        elif k == "apireset":
            b.call("reset_connection")
        elif k == "stall":                   # the peer stops reading: now, or when the n-th next write fills the buffer
            if rng.random() < 0.5:
                b.op(op="pause")
            else:
                b.op(op="arm_pause", nth=rng.randrange(1, 4))
        elif k == "okstall":                 # a connection whose send buffer fills with the n-th write
            b.op(op="resolve", how="ok", pause_in=rng.randrange(1, 4))
        elif k == "unstall":
            b.op(op="resume")
        elif k == "closeopen":
            b.call("close")
            b.op(op="step", k=rng.randrange(0, 5))
            if rng.random() < 0.5:
                b.op(op="advance", by=rng.choice(ADV))
            b.op(op="quiesce")      # open again only after close() has returned
            b.call("open_socket")
    b.heal()
    b.shutdown(k=rng.choice([None, 0, 1, 2, 3, 4]))
    return b.script, {"enc": b.enc, "blockers": b.blockers, "proto": proto, "profile": profile, "seed": seed}


def long_run(seed, proto, n_sends=300):
    """More sends than the 256-value packet counter, from 1..3 concurrent callers, with outages
    during which 1..10 messages are pending.  No write faults, no expiries: every accepted message
    must appear exactly once, in order."""
    rng = random.Random(seed)
    b = Builder(proto, rng)
    b.nmsg = 0
    b.preamble()
    b.op(op="quiesce")
    b.op(op="resolve", how="ok")
    b.op(op="quiesce")
    sent = 0
    while sent < n_sends:
        mode = rng.random()
        if mode < 0.55:                      # connected burst from 1..3 callers in the same iteration
            for _ in range(rng.randrange(1, 4)):
                b.send(POL_IDEM if rng.random() < 0.7 else POL_NONIDEM)
                sent += 1
            b.op(op="step", k=rng.randrange(1, 3))
        elif mode < 0.85:                    # outage: peer reset, 1..10 pending, refusals, reconnect
            b.op(op="quiesce")
            b.op(op="peer_reset")
            b.op(op="quiesce")
            for _ in range(rng.randrange(1, 11)):
                b.send(POL_IDEM)
                sent += 1
                if rng.random() < 0.3:
                    b.op(op="step", k=1)
            if rng.random() < 0.5:
                b.op(op="resolve", how="refuse")
                b.op(op="quiesce")
                b.op(op="advance", by=2000)
            b.op(op="quiesce")
            b.op(op="resolve", how="ok")
            b.op(op="quiesce")
        else:
            b.op(op="advance", by=rng.choice([125, 500, 1000]))
    b.heal()
    b.shutdown()
    return b.script, {"enc": b.enc, "blockers": [], "proto": proto, "profile": "long_run", "seed": seed}


def expiry_boundary(seed, proto):
    """Messages queued while down; the connection arrives at lifetime -125 ms / 0 / +125 ms; and a
    write fault whose re-send opportunity arrives around the expiry."""
    rng = random.Random(seed)
    b = Builder(proto, rng)
    b.preamble()
    b.op(op="quiesce")
    variant = rng.randrange(3)
    pol = rng.choice([POL_IDEM, POL_NONIDEM, POL_CONN])
    life = pol["policy"]["lifetime_ms"]
    off = rng.choice([-125, 0, 125])
    if variant == 0:                         # queued while down, connect around expiry
        for _ in range(rng.randrange(1, 4)):
            b.send(pol)
        b.op(op="quiesce")
        b.op(op="advance", by=life + off)
        b.op(op="resolve", how="ok")
        b.op(op="quiesce")
    elif variant == 1:                       # refused attempts until around expiry
        b.send(pol)
        b.op(op="quiesce")
        t = 0
        b.op(op="resolve", how="refuse")
        while t + 2000 < life + off:
            b.op(op="advance", by=2000)
            t += 2000
            b.op(op="resolve", how="refuse")
        b.op(op="advance", by=life + off - t)
        b.op(op="resolve", how="ok")
        b.op(op="quiesce")
    else:                                    # connected, write fault, reconnection around expiry
        b.op(op="resolve", how="ok")
        b.op(op="quiesce")
        b.op(op="arm_fault", nth=rng.randrange(1, 4))
        b.send(pol)
        b.op(op="quiesce")
        b.op(op="advance", by=max(0, life + off))
        b.op(op="resolve", how="ok")
        b.op(op="quiesce")
    b.heal()
    b.shutdown()
    return b.script, {"enc": b.enc, "blockers": [], "proto": proto, "profile": "expiry", "seed": seed}


def stalled_drain(seed, proto):
    """Messages of mixed lifetimes held while the link is down; the connection that arrives stalls on
    its n-th write (the console does not read); the clock crosses some expiries during the stall; the
    stall ends.  Held messages whose lifetime ran out meanwhile must not appear; the others appear
    once, in order.  Also: sends issued during the stall."""
    rng = random.Random(seed)
    b = Builder(proto, rng)
    b.preamble()
    b.op(op="quiesce")
    pols = [POL_IDEM, POL_NONIDEM, POL_CONN, {"policy": {"retries": 1, "lifetime_ms": 2000}}]
    if rng.random() < 0.25:
        # a caller gives up: the link is up, the console stops reading, send() calls pile up suspended in
        # drain(); the application cancels one or two of them (asyncio.timeout around the call); the stall
        # ends.  Every call that returned normally is owed its frame, a cancelled one is owed nothing.
        b.op(op="resolve", how="ok")
        b.op(op="quiesce")
        if rng.random() < 0.5:
            b.send(POL_IDEM)
            b.op(op="quiesce")
        if rng.random() < 0.5:
            b.op(op="pause")
        else:
            b.op(op="arm_pause", nth=rng.randrange(1, 4))
        ids = []
        for _ in range(rng.randrange(2, 5)):
            ids.append(b.send(rng.choice([POL_IDEM, POL_IDEM, POL_NONIDEM])))
            b.op(op="step", k=rng.randrange(1, 4))
        for cid in rng.sample(ids, rng.randrange(1, min(3, len(ids)))):
            b.op(op="cancel", id=cid)
            b.op(op="step", k=rng.randrange(1, 4))
            if rng.random() < 0.5:
                b.send(POL_IDEM)
                b.op(op="step", k=rng.randrange(1, 4))
        if rng.random() < 0.3:
            b.op(op="advance", by=rng.choice([500, 1125]))
        b.op(op="resume")
        b.op(op="quiesce")
        b.heal()
        b.shutdown()
        return b.script, {"enc": b.enc, "blockers": [], "proto": proto, "profile": "stalled_drain_cancel", "seed": seed}
    if rng.random() < 0.4:
        b.op(op="resolve", how="refuse")
        b.op(op="quiesce")
    for _ in range(rng.randrange(2, 9)):
        b.send(rng.choice(pols))
        if rng.random() < 0.5:
            b.op(op="quiesce")
        if rng.random() < 0.2:
            b.op(op="advance", by=rng.choice([125, 250, 500]))
    b.op(op="quiesce")
    b.op(op="resolve_all", how="refuse")
    b.op(op="quiesce")
    b.op(op="resolve", how="ok", pause_in=rng.randrange(1, 4))
    b.op(op="step", k=rng.randrange(1, 4))
    for _ in range(rng.randrange(1, 4)):
        b.op(op="advance", by=rng.choice([125, 500, 875, 1000, 1125, 1875, 2000, 2125]))
        if rng.random() < 0.4:
            b.send(rng.choice(pols))
        if rng.random() < 0.3:
            b.op(op="quiesce")
    b.op(op="resume")
    b.op(op="quiesce")
    if rng.random() < 0.3:
        b.op(op="advance", by=rng.choice([29875, 30000, 30125]))
    b.heal()
    b.shutdown()
    return b.script, {"enc": b.enc, "blockers": [], "proto": proto, "profile": "stalled_drain", "seed": seed}


def slow_close(seed, proto):
    """Resets that overlap because the close of the old connection is slow: the console has stopped
    reading, so the transport cannot finish closing until the stall ends.  First reset by damaged
    input / peer EOF / API call, then a second trigger while the first still waits, connection
    attempts answered promptly meanwhile, then the stall ends."""
    rng = random.Random(seed)
    b = Builder(proto, rng)
    b.preamble(sending_sub=rng.random() < 0.3)
    b.op(op="quiesce")
    b.op(op="resolve", how="ok")
    b.op(op="quiesce")
    if rng.random() < 0.5:
        b.send(POL_IDEM)
        b.op(op="quiesce")
    if rng.random() < 0.5:
        b.op(op="pause")
    else:
        b.op(op="arm_pause", nth=1)
        b.send(rng.choice(POLICIES))
        b.op(op="step", k=rng.randrange(1, 3))
    first = rng.choice(["crc", "garbage", "eof", "api"])
    if first in ("crc", "garbage"):
        b.feed(first)
    elif first == "eof":
        b.op(op="peer_eof")
    else:
        b.call("reset_connection")
    b.op(op="step", k=rng.randrange(1, 4))
    b.op(op="auto", how="ok")
    for _ in range(rng.randrange(1, 3)):
        second = rng.choice(["api", "send", "api", "close_open"])
        if second == "api":
            b.call("reset_connection")
        elif second == "send":
            b.send(rng.choice(POLICIES))
        else:
            b.call("close")
            b.op(op="step", k=rng.randrange(0, 3))
        b.op(op="step", k=rng.randrange(1, 5))
        if rng.random() < 0.3:
            b.op(op="advance", by=rng.choice([125, 2000, 2125]))
    b.op(op="resume")
    b.op(op="quiesce")
    if second == "close_open":
        b.call("open_socket")
        b.op(op="quiesce")
    b.op(op="auto", how="")
    b.heal()
    b.shutdown(k=rng.choice([None, 0, 2]))
    return b.script, {"enc": b.enc, "blockers": [], "proto": proto, "profile": "slow_close", "seed": seed}


def shutdown_at(seed, proto):
    """close() at a chosen instant: connect pending, back-off after refusal, connected idle, messages
    pending during an outage, mid-reset; k loop iterations later the rest of the epilogue."""
    rng = random.Random(seed)
    b = Builder(proto, rng)
    b.preamble()
    stage = rng.randrange(6)
    if stage >= 1:
        b.op(op="step", k=rng.randrange(0, 3))
    if stage == 1:
        b.op(op="resolve", how="refuse")
        b.op(op="step", k=rng.randrange(0, 4))
        if rng.random() < 0.5:
            b.op(op="advance", by=rng.choice([1875, 2000, 2125]))
    if stage >= 2:
        b.op(op="quiesce")
        b.op(op="resolve", how="ok")
        b.op(op="step", k=rng.randrange(0, 5))
    if stage == 3:
        b.send()
        b.feed("good")
        b.op(op="step", k=rng.randrange(0, 3))
    if stage == 4:
        b.op(op="quiesce")
        b.op(op="peer_reset")
        b.op(op="step", k=rng.randrange(0, 4))
        for _ in range(rng.randrange(0, 4)):
            b.send()
    if stage == 5:
        b.op(op="quiesce")
        b.feed(rng.choice(["crc", "garbage"]))
        b.op(op="arm_fault", nth=1)
        b.send()
        b.op(op="step", k=rng.randrange(0, 5))
    if rng.random() < 0.25:
        # `await s.close(); s.open_socket()` in one user coroutine (no loop turn between the two calls),
        # at the same chosen instant: the socket is open afterwards and has to behave like a fresh one
        if rng.random() < 0.6:               # a bare socket: nobody listens to connection changes
            b.op(op="unsub", who="c", kind="connection")
        i1, i2 = b.nid, b.nid + 1
        b.nid += 2
        b.op(op="call_seq", calls=[{"id": i1, "method": "close"}, {"id": i2, "method": "open_socket"}])
        b.op(op="step", k=rng.randrange(0, 4))
        b.op(op="quiesce")
        b.op(op="resolve_all", how=rng.choice(["ok", "refuse"]))
        b.op(op="quiesce")
        b.op(op="advance", by=rng.choice([2125, 2625, 5000]))
        b.op(op="quiesce")
        b.heal()
        b.shutdown()
        return b.script, {"enc": b.enc, "blockers": [], "proto": proto, "profile": "close_reopen", "seed": seed}
    b.shutdown(k=rng.randrange(0, 7))
    if rng.random() < 0.5:                   # reversible: a later open works as on a fresh object
        b.call("open_socket")
        b.op(op="quiesce")
        b.heal()
        b.shutdown()
    return b.script, {"enc": b.enc, "blockers": [], "proto": proto, "profile": "shutdown_at", "seed": seed}


def queue_fill(seed, proto):
    """Up to 14 sends with mixed lifetimes while disconnected, clock advances crossing expiries,
    then a connection: exactly the held, unexpired messages appear, in order."""
    rng = random.Random(seed)
    b = Builder(proto, rng)
    b.preamble()
    b.op(op="quiesce")
    if rng.random() < 0.35:
        # the outage begins with write failures: 1..2 retryable messages are cut off and return to the
        # held ones (they count towards the ten), later attempts are refused
        b.op(op="resolve", how="ok")
        b.op(op="quiesce")
        if rng.random() < 0.5:
            # ... and an application that reacts to the loss of the link by queueing 9..12 commands from its
            # connection callback, i.e. while the client is still tearing the failed connection down: the
            # cut-off message counts towards the ten from the first moment
            m = msg(b.proto, 900)
            b.op(op="sub", who="cd", kind="connection",
                 sends={"msg": m, "policy": POL_IDEM, "only_on_disconnect": True, "on_disconnect_n": rng.randrange(9, 13)})
            b.op(op="arm_fault", nth=rng.randrange(1, 4))
            b.send(POL_IDEM)
            b.op(op="quiesce")
            b.op(op="unsub", who="cd", kind="connection")
        for _ in range(rng.randrange(1, 3)):
            b.op(op="arm_fault", nth=rng.randrange(1, 4))
            b.send(rng.choice([POL_IDEM, POL_IDEM, {"policy": {"retries": 1, "lifetime_ms": 2000}}, POL_NONIDEM]))
            b.op(op="quiesce")
            b.op(op="resolve", how=rng.choice(["refuse", "refuse", "ok"]))
            b.op(op="quiesce")
        b.op(op="peer_reset")
        b.op(op="quiesce")
        b.op(op="resolve_all", how="refuse")
        b.op(op="quiesce")
    elif rng.random() < 0.3:
        b.op(op="resolve", how="refuse")
        b.op(op="quiesce")
    for _ in range(rng.randrange(8, 15)):
        b.send(rng.choice([POL_IDEM, POL_IDEM, POL_CONN, POL_NONIDEM, {"policy": {"retries": 1, "lifetime_ms": 2000}}]))
        r = rng.random()
        if r < 0.6:
            b.op(op="quiesce")
        if r < 0.25:
            b.op(op="advance", by=rng.choice([125, 500, 875, 1000, 1125, 2000]))
    if rng.random() < 0.3:
        b.op(op="advance", by=rng.choice([29875, 30000, 30125]))
        for _ in range(rng.randrange(0, 4)):
            b.send(POL_IDEM)
            b.op(op="quiesce")
    b.op(op="quiesce")
    b.op(op="resolve_all", how="ok")
    b.op(op="advance", by=2000)
    b.op(op="resolve_all", how="ok")
    b.op(op="quiesce")
    b.heal()
    b.shutdown()
    return b.script, {"enc": b.enc, "blockers": [], "proto": proto, "profile": "queue_fill", "seed": seed}
