"""Shared machinery of the checks: parallel script execution on the real code, lowering of recorded
traces to the raw events the TLA+ trace specs read, sharded TLC validation, verdict bookkeeping,
evidence files, known findings."""
import hashlib
import json
import multiprocessing as mp
import os
import sys
import time
from concurrent.futures import ThreadPoolExecutor

ROOT = os.path.dirname(os.path.dirname(os.path.abspath(__file__)))
sys.path.insert(0, ROOT)
sys.path.insert(0, os.environ.get("VERIF_REPO", "/repo"))   # the tree under test (default: /repo's working tree)

from harness import tlc  # noqa: E402

SCRATCH = os.path.join(ROOT, ".scratch")
EVID = os.environ.get("VERIF_EVIDENCE_DIR") or os.path.join(ROOT, "evidence")   # (seeded runs write elsewhere)
NCPU = min(16, os.cpu_count() or 4)


def seed():
    return int(os.environ.get("VERIF_SEED", "20260927"))


def tier(argv=None):
    t = os.environ.get("VERIF_TIER", "")
    argv = argv if argv is not None else sys.argv
    if "--tier" in argv:
        t = argv[argv.index("--tier") + 1]
    return t if t in ("quick", "thorough") else "quick"


# ---------------------------------------------------------------------------------------------
# clause -> properties (a clause may witness several listed properties)

CLAUSES = {
    "NoFabrication": ["C01"], "OnceUnlessFailed": ["C01"], "FirstTxInOrder": ["C01"],
    "PromptAtQuiesce": ["C01"], "GarbledFrame": ["C01", "C03"], "SendRaised": ["C01"],
    "Addressing": ["C04"],
    "AttemptBound": ["C02"], "NotAfterExpiry": ["C02", "C16"], "FailedFirstOnNext": ["C02"],
    "FailedNotResent": ["C02"],
    "OverflowNotRaised": ["C16"], "SpuriousOverflow": ["C16"], "RejectedButSent": ["C16"],
    "NotOpenNotRaised": ["C16", "C15"], "SpuriousNotOpen": ["C16"],
    "AtMostOne": ["C07"], "HealNotConnected": ["C07"], "HealNotTransmitting": ["C07"],
    "HealNotReceiving": ["C07"], "AbandonedNotClosed": ["C07"], "HalfOpenNotClosed": ["C07"], "GaveUpConnecting": ["C07", "C15", "C14"],
    "DefectNotClosed": ["C06", "C07", "C17"], "DeliveredAfterDefect": ["C06", "C17"],
    "DeliverWithoutFrame": ["C13", "C17"], "FrameNotDelivered": ["C13", "C07"],
    "Misread": ["C03", "C13", "C17"], "UnhandledException": ["C17", "C07"],
    "SpuriousReset": ["C13", "C10", "C09"],
    "AttemptAfterClose": ["C15"], "WriteAfterClose": ["C15"], "NotifyAfterClose": ["C15"],
    "ResidualTasks": ["C15"], "ConnLeftOpen": ["C15"],
}


CLAUSES.update({
    "HandshakeOrder": ["C09"], "HandshakeStalled": ["C09"], "InitNotTrue": ["C09"], "InitHangs": ["C09"],
    "InitEarlyFalse": ["C09"], "InitLate": ["C09"], "InitRaised": ["C09"], "InitTrueEarly": ["C09"],
    "InitialisedWrong": ["C09"], "SnapshotMismatch": ["C10", "C09", "C14", "C19"],
    "MissedNotification": ["C12"], "SpuriousNotification": ["C12", "C14"], "WrongNotificationId": ["C12"],
    "NotifiedAfterUnsubscribe": ["C12"],
    "InvalidNotRefused": ["C11", "C19"], "RefusedButSent": ["C11"], "ValidRefused": ["C11", "C19"], "CommandNotSent": ["C11", "C04", "C02"], "NonIdempotentResent": ["C02"],
    "CommandDuplicated": ["C11", "C02"], "WrongCommandFrame": ["C04", "C11", "C19"], "UnexplainedFrame": ["C01", "C04", "C09"],
    "HeartbeatMissing": ["C08"], "HeartbeatOffSchedule": ["C08"], "HeartbeatNoReset": ["C08"], "SpuriousHeartbeatReset": ["C08"],
    "RefreshMissing": ["C14"], "RefreshOrder": ["C14"], "PollMissing": ["C14"], "PollOffSchedule": ["C14"],
    "StateAfterShutdown": ["C15"], "ShutdownRaised": ["C15"],
})


CLAUSES.update({c: ["C18"] for c in (
    "WrongRequest", "WrongPort", "WrongDestination", "TooManyRequests", "RequestOffSchedule", "RequestAfterAnswer",
    "SendAfterClose", "DiscoverRaised", "DuplicateEntry", "SpuriousEntry", "MissingEntry", "SocketLeftOpen", "NoRequest",
    "DiscoverHangs", "GaveUpEarly")})
CLAUSES.update({c: ["C19"] for c in ("AttributesDiffer", "AcceptanceDiffers", "FrameMissing", "MeaningDiffers")})


def lower_discovery(trace):
    out = []
    for ev in trace:
        e, t = ev["e"], ev["t"]
        if e == "call" and ev.get("method") == "discover":
            host = ev.get("kwargs", {}).get("remote_host")
            out.append({"e": "calldiscover", "t": t, "host": list(host.encode()) if host else []})
        elif e == "ret":
            out.append({"e": "retdiscover", "t": t, "res": ev["res"], "val": ev["val"] if isinstance(ev["val"], list) else []})
        elif e == "udp_open":
            out.append({"e": "udp_open", "t": t, "u": ev["u"], "lport": ev["lport"]})
        elif e == "udp_send":
            out.append({"e": "udp_send", "t": t, "u": ev["u"], "host": list(ev["host"].encode()), "port": ev["port"], "b": ev["b"]})
        elif e == "udp_send_closed":
            out.append({"e": "udp_send", "t": t, "u": ev["u"], "host": [], "port": 0, "b": ev["b"]})
        elif e == "datagram":
            out.append({"e": "datagram", "t": t, "u": ev["u"], "b": ev["b"]})
        elif e == "udp_close":
            out.append({"e": "udp_close", "t": t, "u": ev["u"]})
        elif e == "unhandled":
            out.append({"e": "unhandled", "t": t})
    out.append({"e": "end", "t": trace[-1]["t"] if trace else 0})
    return out


def props_of(clause):
    return CLAUSES.get(clause.split(":")[0], [])


# ---------------------------------------------------------------------------------------------
# running scripts on the real code (fresh process pool: /repo is imported from its working tree)

def _run_one(job):
    from harness.executor import run_script
    sid, proto, target, opts, script = job
    try:
        tr, err = run_script(script, proto=proto, target=target, opts=opts)
    except Exception as ex:  # harness crash = machinery failure, reported by the caller
        import traceback
        return sid, None, "crash: " + "".join(traceback.format_exception_only(type(ex), ex)).strip() + \
            " @ " + traceback.format_exc().splitlines()[-3].strip()
    return sid, tr, err


def run_scripts(jobs, procs=NCPU, chunk=8):
    """jobs: list of (sid, proto, target, opts, script).  Returns {sid: (trace, err)}."""
    if not jobs:
        return {}
    out = {}
    if len(jobs) < 4 or procs == 1:
        for j in jobs:
            sid, tr, err = _run_one(j)
            out[sid] = (tr, err)
        return out
    ctx = mp.get_context("fork")
    with ctx.Pool(procs) as pool:
        for sid, tr, err in pool.imap_unordered(_run_one, jobs, chunksize=chunk):
            out[sid] = (tr, err)
    return out


# ---------------------------------------------------------------------------------------------
# lowering: harness trace -> raw events of Trace_Socket (purely syntactic)

def lower_socket(trace, enc_of=None, blockers=()):
    """enc_of: {call id: "ok"|"bad"} declared by the script generator for send calls."""
    enc_of = enc_of or {}
    out = []
    kinds = {}
    for ev in trace:
        e, t = ev["e"], ev["t"]
        if e == "call":
            m = ev.get("method")
            kinds[ev["id"]] = m
            if isinstance(ev["id"], str):        # submitted by a script-installed subscriber: ids are strings
                ev = dict(ev, id=1000000 + sum(ord(ch) * (k + 1) * 131 for k, ch in enumerate(ev["id"])) % 1000000)
                kinds[ev["id"]] = m
            if ev.get("target", "socket") != "socket":
                continue
            if m == "send" and "desc" in ev:
                out.append({"e": "callsend", "t": t, "id": ev["id"], "desc": ev["desc"],
                            "retries": ev["retries"], "life": ev["life"],
                            "enc": enc_of.get(ev["id"], enc_of.get(str(ev["id"]), "ok"))})
            elif m == "open_socket":
                out.append({"e": "callopen", "t": t})
            elif m == "close":
                out.append({"e": "callclose", "t": t})
        elif e == "ret":
            m = kinds.get(ev["id"])
            if isinstance(ev["id"], str):
                ev = dict(ev, id=1000000 + sum(ord(ch) * (k + 1) * 131 for k, ch in enumerate(ev["id"])) % 1000000)
            if m == "send":
                out.append({"e": "retsend", "t": t, "id": ev["id"], "res": ev["res"]})
            elif m == "close":
                out.append({"e": "retclose", "t": t})
        elif e == "cancel":
            if kinds.get(ev["id"]) == "send":
                out.append({"e": "cancelsend", "t": t, "id": ev["id"]})
        elif e == "conn_attempt":
            out.append({"e": "attempt", "t": t, "c": ev["c"]})
        elif e == "conn_ok":
            out.append({"e": "connok", "t": t, "c": ev["c"]})
        elif e == "conn_refused":
            out.append({"e": "refused", "t": t, "c": ev["c"]})
        elif e == "conn_cancelled":
            out.append({"e": "cancelled", "t": t, "c": ev["c"]})
        elif e == "cclose":
            out.append({"e": "cclose", "t": t, "c": ev["c"]})
        elif e == "lost":
            out.append({"e": "lost", "t": t, "c": ev["c"]})
        elif e == "peer_eof":
            out.append({"e": "peereof", "t": t, "c": ev["c"]})
        elif e == "write":
            out.append({"e": "write", "t": t, "c": ev["c"], "b": ev["b"], "d": 0})
        elif e == "write_dropped":
            out.append({"e": "write", "t": t, "c": ev["c"], "b": ev["b"], "d": 1})
        elif e == "feed":
            out.append({"e": "feed", "t": t, "c": ev["c"], "b": ev["b"]})
        elif e == "deliver":
            if ev.get("who") == "m":
                out.append({"e": "deliver", "t": t, "rd": {"hdr": ev["hdr"], "msg": ev["msg"]}})
        elif e == "notify":
            if ev.get("who") == "c":
                out.append({"e": "notify", "t": t, "connected": ev["connected"]})
        elif e == "unhandled":
            # An injected subscriber failure that asyncio itself reports ("Task exception was never
            # retrieved" for a callback task nobody awaited any more) is the user's exception, not
            # one of the client's tasks failing.
            if not (ev.get("source") == "loop" and ev.get("exc") == "InjectedSubscriberFailure"):
                out.append({"e": "unhandled", "t": t})
        elif e == "quiesce":
            out.append({"e": "quiesce", "t": t})
        elif e == "mark":
            out.append({"e": ev["tag"], "t": t})
        elif e == "residual":
            out.append({"e": "residual", "t": t, "tasks": ev["tasks"], "timers": ev["timers"]})
        elif e == "sub" and ev.get("who") in blockers:
            out.append({"e": "block", "t": t})
        elif e == "release":
            out.append({"e": "release", "t": t})
        elif e == "paused":          # the peer stopped reading: drain() does not return
            out.append({"e": "stall", "t": t, "c": ev["c"]})
        elif e == "resumed":
            out.append({"e": "unstall", "t": t, "c": ev["c"], "ended": ev.get("why") == "ended"})
    return out


def lower_client(trace, blockers=()):
    """Whole-client traces: socket-level raw events plus the API events of ClientContract."""
    out = []
    meth = {}
    for ev in trace:
        e, t = ev["e"], ev["t"]
        if e == "call" and ev.get("target") == "heartbeat":
            meth[ev["id"]] = "hb_" + ev["method"]
            if ev["method"] == "start":
                out.append({"e": "hbstart", "t": t})
            continue
        if e == "ret" and meth.get(ev["id"], "").startswith("hb_"):
            if meth[ev["id"]] == "hb_stop":
                out.append({"e": "hbstop", "t": t})
            continue
        if e == "call" and ev.get("target", "socket") != "socket":
            if ev.get("skipped"):
                continue
            m = ev["method"]
            meth[ev["id"]] = m
            tgt = ev["target"]
            tk, _, tn = tgt.partition(":")
            out.append({"e": "callapi", "t": t, "id": ev["id"], "target": tgt, "method": m, "args": ev.get("args", []),
                        "kwargs": ev.get("kwargs", {}), "tk": tk, "tn": int(tn) if tn else 0})
            if m == "init":
                out.append({"e": "callopen", "t": t})
            elif m == "shutdown":
                out.append({"e": "callclose", "t": t})
        elif e == "ret" and ev["id"] in meth:
            m = meth[ev["id"]]
            out.append({"e": "retapi", "t": t, "id": ev["id"], "res": ev["res"], "val": ev.get("val", []), "method": m})
            if m == "shutdown":
                out.append({"e": "retclose", "t": t})
        elif e == "sub" and ev.get("target", "socket") != "socket":
            out.append({"e": "subapi", "t": t, "who": ev["who"], "target": ev["target"], "kind": ev["kind"], "incb": bool(ev.get("in_cb"))})
        elif e == "unsub" and ev.get("target", "socket") != "socket":
            out.append({"e": "unsubapi", "t": t, "who": ev["who"], "target": ev["target"], "kind": ev["kind"], "incb": bool(ev.get("in_cb"))})
        elif e == "cb":
            out.append({"e": "cb", "t": t, "who": ev["who"], "id": ev["id"]})
        elif e == "snapshot":
            out.append({"e": "snapshot", "t": t, "model": ev["model"], "tag": ev.get("tag", "")})
        elif e == "fault_armed":
            out.append({"e": "fault", "t": t})
        else:
            out += lower_socket([ev], blockers=blockers)
    return out


# ---------------------------------------------------------------------------------------------
# TLC validation of batches of lowered traces

def _validate_shard(args):
    module, cfg, shard_id, traces, extra_env = args
    os.makedirs(SCRATCH, exist_ok=True)
    path = os.path.join(SCRATCH, f"shard_{os.getpid()}_{shard_id}_{int(time.time()*1000)%100000}.json")
    with open(path, "w") as f:
        json.dump({"traces": traces}, f, separators=(",", ":"))
    env = {"TRACE_FILE": path}
    env.update(extra_env or {})
    try:
        res = tlc.run(module, cfg, env=env, workers=1, heap="3g", timeout=3000)
    finally:
        try:
            os.remove(path)
        except OSError:
            pass
    verdicts = {}
    for v in res.prints("VERDICT"):
        verdicts[v[1]] = v[2]
    return shard_id, verdicts, res.generated, res.distinct, res.out if (res.error or len(verdicts) != len(traces)) else ""


TRACE_CFG = "CONSTANT QMAX = 10\nINIT Init\nNEXT Next\nCHECK_DEADLOCK FALSE\n"


def validate(module, traces, shards=NCPU, cfg=TRACE_CFG, extra_env=None):
    """traces: list of {"id":, "proto":, "ev": [...]}.  Returns (verdicts {id: [[clause, n], ...]},
    stats).  Raises tlc.TlcFailure when some trace got no verdict (machinery failure)."""
    if not traces:
        return {}, {"states": 0, "transitions": 0}
    shards = max(1, min(shards, (len(traces) + 3) // 4))
    buckets = [[] for _ in range(shards)]
    # balance by event count
    order = sorted(traces, key=lambda tr: -len(tr["ev"]))
    loads = [0] * shards
    for tr in order:
        k = loads.index(min(loads))
        buckets[k].append(tr)
        loads[k] += len(tr["ev"]) + 1
    jobs = [(module, cfg, k, b, extra_env) for k, b in enumerate(buckets) if b]
    verdicts, gen, dist = {}, 0, 0
    with ThreadPoolExecutor(max_workers=len(jobs)) as ex:
        for shard_id, v, g, d, err in ex.map(_validate_shard, jobs):
            if err:
                raise tlc.TlcFailure(f"TLC shard {shard_id} failed:\n" + err[-3000:])
            verdicts.update(v)
            gen += g
            dist += d
    missing = [tr["id"] for tr in traces if tr["id"] not in verdicts]
    if missing:
        raise tlc.TlcFailure(f"no verdict for traces {missing[:5]}")
    return verdicts, {"states": dist, "transitions": gen}


# ---------------------------------------------------------------------------------------------
# known findings, replays, evidence

def known_findings():
    p = os.path.join(ROOT, "known_findings.json")
    if not os.path.exists(p):
        return []
    with open(p) as f:
        return json.load(f).get("findings", [])


def script_hash(obj):
    return hashlib.sha256(json.dumps(obj, sort_keys=True, separators=(",", ":")).encode()).hexdigest()[:16]


def save_replay(prop, payload):
    d = os.path.join(EVID, "replays", prop)
    os.makedirs(d, exist_ok=True)
    h = script_hash(payload)
    p = os.path.join(d, h + ".json")
    with open(p, "w") as f:
        json.dump(payload, f, indent=1)
    return os.path.relpath(p, ROOT)


class Report:
    """Collects what a check did and found; writes evidence; decides the exit status."""

    def __init__(self, prop, level="model_checking"):
        self.prop = prop
        self.level = level
        self.t0 = time.time()
        self.tier = tier()
        self.seed = seed()
        self.states = 0
        self.transitions = 0
        self.traces = 0
        self.evaluations = 0
        self.samples = []
        self.violations = []      # (clause, detail, replay)
        self.known = []
        self.parts = []
        self.assumptions = []
        self.extra = {}
        self.exhaustive = None
        self.machinery = []

    def add_tlc(self, stats):
        self.states += stats.get("states", 0)
        self.transitions += stats.get("transitions", 0)

    def part(self, name, **kw):
        d = {"part": name}
        d.update(kw)
        self.parts.append(d)

    def sample(self, s, cap=3):
        if len(self.samples) < cap:
            self.samples.append(s)

    def violation(self, clause, detail, payload):
        """A clause of this property failed.  Known findings are matched on (property, clause, key)."""
        key = payload.get("key", "")
        for kf in known_findings():
            if kf.get("status", "open") != "open":
                continue
            if kf["property"] == self.prop and kf["clause"] == clause and _key_match(kf.get("match", {}), payload):
                if kf["id"] not in [k["id"] for k in self.known]:
                    self.known.append(kf)
                return
        if len(self.violations) < 20:
            replay = save_replay(self.prop, payload)
            self.violations.append((clause, detail, replay))

    def finish(self):
        wall = time.time() - self.t0
        cov = {
            "states": max(self.states, 0), "transitions": max(self.transitions, 0),
            "traces_validated_against_impl": self.traces,
            "samples": self.samples or [{"note": "no sample recorded"}],
            "evaluations": max(self.evaluations, self.traces),
            "parts": self.parts,
        }
        if self.exhaustive is not None:
            cov["exhaustive"] = self.exhaustive
        cov.update(self.extra)
        ev = {"property_id": self.prop, "tier": self.tier, "seed": self.seed, "level": self.level,
              "coverage": cov, "assumptions": self.assumptions, "wall_s": round(wall, 2),
              "violations": len(self.violations),
              "known_findings": [k["id"] for k in self.known]}
        os.makedirs(EVID, exist_ok=True)
        with open(os.path.join(EVID, self.prop + ".json"), "w") as f:
            json.dump(ev, f, indent=1)
        for k in self.known:
            print(f"KNOWN-FINDING: property={self.prop} {k['id']}: {k['what']}")
        if self.machinery:
            for m in self.machinery:
                print("MACHINERY-FAILURE:", m)
            return 2
        for clause, detail, replay in self.violations:
            print(f"VIOLATION property={self.prop} replay={replay} clause={clause} {detail}")
        if self.violations:
            return 1
        print(f"OK property={self.prop} tier={self.tier} states={self.states} traces={self.traces} "
              f"evaluations={cov['evaluations']} wall={wall:.1f}s")
        return 0


def _key_match(match, payload):
    for k, v in match.items():
        if payload.get(k) != v:
            return False
    return True
