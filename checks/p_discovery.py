"""C18: discovery reports each answering console once, correctly, and terminates."""
import random

from . import lib

REQ = {49004: b"HF-A11ASSISTHREAD", 49005: b"::REQUEST-POLYAIRE-AIRTOUCH-DEVICE-INFO:;"}
NAMES = [b"Home", b"Beach house, upstairs", "Wohnung Süd".encode(), b"a,b,,c", b"", "寝室".encode()]


def valid(rng, port):
    host = f"192.168.{rng.randrange(4)}.{rng.randrange(2, 250)}".encode()
    serial = bytes(rng.choice(b"0123456789ABCDEF") for _ in range(rng.randrange(6, 13)))
    aid = str(rng.randrange(10 ** 7, 10 ** 8)).encode()
    if port == 49004:
        return b",".join([host, serial, b"AirTouch4", aid])
    return b",".join([host, serial, b"AirTouch5", aid, rng.choice(NAMES)])


def datagram(rng, port):
    r = rng.random()
    v = valid(rng, port)
    if r < 0.45:
        return v
    if r < 0.52:
        return REQ[port]                                  # echo of the request
    if r < 0.60:
        parts = v.split(b",")
        return b",".join(parts[:rng.randrange(1, 4)])     # too few parts
    if r < 0.68:
        parts = v.split(b",")
        parts[2], parts[3] = parts[3], parts[2]           # id in the wrong position
        return b",".join(parts)
    if r < 0.76:
        return v.replace(b"AirTouch", b"AirTouch\xff")    # invalid text, tag damaged
    if r < 0.84:
        b = bytearray(v)
        b[rng.randrange(len(b))] = rng.choice([0xff, 0xc0, 0x80, 0xfe])   # invalid UTF-8 somewhere
        return bytes(b)
    if r < 0.92:
        return bytes(rng.randrange(256) for _ in range(rng.randrange(0, 40)))
    other = 49005 if port == 49004 else 49004
    return valid(rng, other)                              # the other generation's answer on this port


def script(seed):
    rng = random.Random(seed)
    sc = []
    unicast = rng.random() < 0.4
    call = {"op": "call", "id": 1, "target": "factory", "method": "discover"}
    if unicast:
        call["kwargs"] = {"remote_host": f"10.0.0.{rng.randrange(2, 200)}"}
    sc.append(call)
    sc.append({"op": "quiesce"})
    events = []
    for port in (49004, 49005):
        n = rng.choice([0, 0, 1, 1, 2, 3])
        dup = None
        for _ in range(n):
            t = rng.choice([125, 250, 375, 625, 750, 875, 1125, 1250, 1375, 1625, 2000])
            d = datagram(rng, port)
            if dup is not None and rng.random() < 0.3:
                d = dup                                   # duplicate answer
            elif dup is not None and rng.random() < 0.45 and dup.count(b",") >= 3:
                # an answer that differs from the previous one in a single field (a console reachable under
                # two addresses, a replaced console keeping its name, two consoles of one system ...) or in
                # address and serial: each of them is a different datagram and yields its own entry
                parts = dup.split(b",")
                which = rng.choice(["host", "host", "serial", "id", "name", "host+serial"])
                if "host" in which:
                    parts[0] = parts[0] + b"1"
                if "serial" in which:
                    parts[1] = parts[1][::-1] + b"7"
                if which == "id":
                    parts[3] = parts[3][::-1] + b"3"
                if which == "name":
                    if len(parts) > 4:
                        parts[4] = parts[4] + b" 2"
                    else:
                        parts[0] = parts[0] + b"2"
                d = b",".join(parts)
                if rng.random() < 0.6:                    # within the same interval as the one it resembles
                    t = last_t
            dup = d
            last_t = t
            events.append((t, port, d))
    events.sort(key=lambda x: x[0])
    for t, port, d in events:
        sc.append({"op": "advance", "to": t})
        sc.append({"op": "datagram", "lport": port, "b": list(d)})
        sc.append({"op": "quiesce"})
    sc.append({"op": "advance", "to": 3000})
    sc.append({"op": "quiesce"})
    sc.append({"op": "residual"})
    return sc, {"seed": seed, "unicast": unicast, "datagrams": [(t, p, list(d)) for t, p, d in events]}


def l2d(rep, q):
    """DiscoveryImpl: exhaustive refinement check, sensitivity, schedules for replay."""
    from . import p_l2d as L
    for name, over in (("two searches, 7 datagram kinds, all instants incl. exact ties", dict(MaxEnv=5 if q else 6)),):
        res = L.model_check(over)
        rep.add_tlc({"states": res["states"], "transitions": res["transitions"]})
        rep.part("DiscoveryImpl model check: " + name, constants=over, states=res["states"], depth=res["depth"],
                 complete=res["complete"], wall_s=res["wall"], invariants_violated=res["invariants_violated"], clause=res["clause"])
        if res["error"]:
            rep.machinery.append("TLC error in DiscoveryImpl: " + res["tail"][-600:])
        for inv in res["invariants_violated"]:
            clause = res["clause"] if inv == "ContractHolds" else inv
            rep.violation(clause, f"DiscoveryImpl model violates {inv}", {"key": "L2D:" + clause, "clause": clause, "model": "DiscoveryImpl", "constants": over})
    if not q:
        res = L.model_check(dict(MaxEnv=5, F_SET="FALSE"))
        got = "ContractHolds" in res["invariants_violated"]
        rep.part("DiscoveryImpl sensitivity: F_SET=FALSE (duplicate filter keyed on the id) must violate ContractHolds",
                 violated=res["invariants_violated"], clause=res["clause"], as_expected=got)
        if not got:
            rep.machinery.append("DiscoveryImpl with F_SET=FALSE does not violate the contract: the model does not exercise the property")
    scripts, gen, bad = L.simulate_scripts(600 if q else 12000, lib.seed() % 100000)
    if bad:
        rep.part("note", text="DiscoveryImpl simulation reported a violation in the MODEL", tail=bad[0][-600:])
    return [(f"l2d-{i}", L.to_harness(s), {"l2": s}) for i, s in enumerate(scripts)]


def check_c18(rep):
    q = rep.tier == "quick"
    rng = random.Random(lib.seed() + 18)
    n = 1500 if q else 40000
    jobs, metas = [], {}
    for i in range(n):
        sd = rng.randrange(1 << 30)
        sc, meta = script(sd)
        sid = f"c18-{sd}"
        jobs.append((sid, "at4", "discover", None, sc))
        metas[sid] = (sc, meta)
    l2 = l2d(rep, q)
    for sid, sc, meta in l2:
        jobs.append((sid, "at4", "discover", None, sc))
        metas[sid] = (sc, meta)
    rep.part("DiscoveryImpl schedules replayed into the real discover()", scripts=len(l2))
    res = lib.run_scripts(jobs)
    traces = []
    for sid, (tr, err) in res.items():
        if err:
            rep.machinery.append(f"{sid}: {err}")
            continue
        traces.append({"id": sid, "proto": "at4", "ev": lib.lower_discovery(tr)})
    verdicts, stats = lib.validate("Trace_Discovery", traces, cfg="INIT Init\nNEXT Next\nCHECK_DEADLOCK FALSE\n")
    rep.add_tlc(stats)
    rep.traces += len(traces)
    for sid, viol in verdicts.items():
        for clause, k in viol:
            sc, meta = metas[sid]
            rep.violation(clause, f"script={sid} event={k}", {"key": clause, "clause": clause, "script": sc, "meta": meta,
                                                              "target": "discover", "trace_tail": res[sid][0][-10:]})
    rep.part("discover() with 0..3 datagrams per search (valid, duplicate, echo, wrong part count, wrong id position, invalid text, random, "
             "other generation) at instants around the three request times, broadcast and unicast", scripts=n)
    rep.sample({"kind": "discovery script", "script": jobs[0][4], "meta": metas[jobs[0][0]][1]})
    rep.assumptions += ["UDP is simulated: create_datagram_endpoint of the virtual loop and the socket module used by pyairtouch.comms.discovery are replaced by doubles",
                        "an answer arriving at exactly the instant an interval ends, or before the first request, may or may not count for that interval (either order of two simultaneous events is accepted)",
                        "AT4 answers with more than three commas are not judged (the reverse-engineered format does not say whether the id may contain commas)"]
