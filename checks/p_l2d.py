"""DiscoveryImpl (L2 of discovery): exhaustive TLC runs against DiscoveryContract, and TLC-generated
schedules (datagram kinds x arrival instants incl. exact ties x loop turns) replayed into the real
pyairtouch.discover()."""
import re
from concurrent.futures import ThreadPoolExecutor

from harness import tlc

INVS = ["ContractHolds", "AlwaysReturns", "Bounded", "ClosedAtReturn"]
BASE = dict(MaxEnv=5, H=2, F_SET="TRUE", Record="FALSE")


def cfg(over=None, invs=INVS, emit=False):
    d = dict(BASE)
    d.update(over or {})
    s = "CONSTANTS\n" + "".join(f"  {k} = {v}\n" for k, v in d.items())
    s += "SPECIFICATION Spec\n" + "".join(f"INVARIANT {i}\n" for i in invs)
    if emit:
        s += "INVARIANT EmitScript\n"
    return s + "CHECK_DEADLOCK FALSE\n"


def model_check(over=None, timeout=1800, heap="12g", workers=16):
    r = tlc.run("DiscoveryImpl", cfg(over), workers=workers, heap=heap, timeout=timeout)
    viol = re.findall(r'viol \|-> <<<<"(\w+)"', r.out)
    return {"invariants_violated": r.violated_invariants(), "clause": viol[-1] if viol else "", "states": r.distinct,
            "transitions": r.generated, "depth": r.depth, "wall": round(r.wall, 1), "complete": "Model checking completed" in r.out,
            "error": r.error, "timeout": r.rc == 124, "tail": r.out[-1200:] if (r.error or r.rc == 124) else ""}


def simulate_scripts(n, seed, over=None, depth=300, procs=8):
    o = dict(MaxEnv=9, Record="TRUE")
    o.update(over or {})
    per = max(1, (n + procs - 1) // procs)
    c = cfg(o, invs=["ContractHolds"], emit=True)

    def one(k):
        return tlc.run("DiscoveryImpl", c, workers=1, heap="2g", timeout=900, simulate=f"num={per}", depth=depth, seed=seed * 1000 + k)

    scripts, seen, gen, bad = [], set(), 0, []
    with ThreadPoolExecutor(max_workers=procs) as ex:
        for r in ex.map(one, range(procs)):
            gen += r.generated
            if r.violated_invariants() or r.error:
                bad.append(r.out[-2000:])
            for v in r.prints("SCRIPT"):
                key = repr(v[1])
                if key not in seen:
                    seen.add(key)
                    scripts.append(v[1])
    return scripts, gen, bad


def to_harness(l2):
    sc = []
    for o in l2:
        k = o["op"]
        if k == "call":
            sc.append({"op": "call", "id": 1, "target": "factory", "method": "discover"})
        elif k == "step":
            sc.append({"op": "step", "k": o["k"]})
        elif k == "datagram":
            sc.append({"op": "datagram", "lport": o["lport"], "b": list(o["b"])})
        elif k == "advance":
            # the model's clock stops AT a due timer; what follows happens at that instant, before the loop turns
            sc.append({"op": "advance", "by": o["by"], "hold": True})
    sc.append({"op": "quiesce"})
    sc.append({"op": "advance", "by": 3000})
    sc.append({"op": "quiesce"})
    sc.append({"op": "residual"})
    return sc
