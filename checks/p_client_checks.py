"""API-level checks (C04 C08 C09 C10 C11 C12 C14 C15 C19)."""
import random

from . import gen_client as GC
from . import lib
from . import p_client as PC
from . import p_socket as PS


def seeds(n, salt):
    rng = random.Random(lib.seed() * 1000003 + salt)
    return [rng.randrange(1 << 30) for _ in range(n)]


def judge(rep, verdicts, metas, also=()):
    PS.judge(rep, verdicts, metas, also=also)


def run_generated(rep, name, scripts, also=()):
    verdicts, metas = PC.run_batch(rep, scripts)
    judge(rep, verdicts, metas, also=also)
    rep.part(name, scripts=len(scripts))
    if scripts:
        rep.sample({"kind": name, "meta": scripts[0][3], "script_head": scripts[0][2][:10]})


API_ASSUME = [
    "the simulated console's frames are built by independent builders (harness/console.py); what they mean is decided by the TLA+ wire layer",
    "ClientContract (TLA+) is the reading of the property; ApiModel (TLA+) gives the expected attribute values and command readings",
    "virtual time on a 125 ms grid; exact ties with deadlines are not generated except where the statement defines the outcome",
]


def check_c09(rep):
    q = rep.tier == "quick"
    sc = [(f"c09-{p}-{s}", p, *GC.c09_script(s, p)) for i, s in enumerate(seeds(700 if q else 12000, 9))
          for p in (("at4",) if i % 2 == 0 else ("at5",))]
    run_generated(rep, "initialisation scenarios: installations x extras x segmentation x silent step x connect delay", sc)
    rep.assumptions += API_ASSUME


def check_c08(rep):
    q = rep.tier == "quick"
    sc = [(f"c08-{p}-{s}", p, *GC.c08_script(s, p)) for i, s in enumerate(seeds(500 if q else 8000, 8))
          for p in (("at4",) if i % 2 == 0 else ("at5",))]
    run_generated(rep, "heartbeat answer patterns (prompt / late by 10 s, 29.875 s, 30.25 s, 60 s / never) over 3..5 beats", sc)
    rep.assumptions += API_ASSUME


def check_c14(rep):
    q = rep.tier == "quick"
    sc = [(f"c14-{p}-{s}", p, *GC.c14_script(s, p)) for i, s in enumerate(seeds(500 if q else 8000, 14))
          for p in (("at4",) if i % 2 == 0 else ("at5",))]
    run_generated(rep, "connection loss after initialisation x console state changes x outage length; AT4 group-status gaps", sc)
    rep.assumptions += API_ASSUME


def check_c15_api(rep, n):
    sc = [(f"c15-{p}-{s}", p, *GC.c15_script(s, p)) for i, s in enumerate(seeds(n, 15))
          for p in (("at4",) if i % 2 == 0 else ("at5",))]
    run_generated(rep, "shutdown() at chosen instants of the client's life, k loop iterations, long idle, send, optional re-init", sc)
