"""API-level checks (C04 C08 C09 C10 C11 C12 C14 C15 C19)."""
import random

from . import gen_client as GC
from . import lib
from . import p_client as PC
from . import p_socket as PS


def seeds(n, salt):
    rng = random.Random(lib.seed() * 1000003 + salt)
    return [rng.randrange(1 << 30) for _ in range(n)]


def judge(rep, verdicts, metas, also=()):
    PS.judge(rep, verdicts, metas, also=also)


def run_generated(rep, name, scripts, also=()):
    verdicts, metas = PC.run_batch(rep, scripts)
    judge(rep, verdicts, metas, also=also)
    rep.part(name, scripts=len(scripts))
    if scripts:
        rep.sample({"kind": name, "meta": scripts[0][3], "script_head": scripts[0][2][:10]})


API_ASSUME = [
    "the simulated console's frames are built by independent builders (harness/console.py); what they mean is decided by the TLA+ wire layer",
    "ClientContract (TLA+) is the reading of the property; ApiModel (TLA+) gives the expected attribute values and command readings",
    "virtual time on a 125 ms grid; exact ties with deadlines are not generated except where the statement defines the outcome",
]


def check_c09(rep):
    q = rep.tier == "quick"
    sc = [(f"c09-{p}-{s}", p, *GC.c09_script(s, p)) for i, s in enumerate(seeds(700 if q else 12000, 9))
          for p in (("at4",) if i % 2 == 0 else ("at5",))]
    run_generated(rep, "initialisation scenarios: installations x extras x segmentation x silent step x connect delay", sc)
    rep.assumptions += API_ASSUME


def check_c08(rep):
    q = rep.tier == "quick"
    sc = [(f"c08-{p}-{s}", p, *GC.c08_script(s, p)) for i, s in enumerate(seeds(500 if q else 8000, 8))
          for p in (("at4",) if i % 2 == 0 else ("at5",))]
    run_generated(rep, "heartbeat answer patterns (prompt / late by 10 s, 29.875 s, 30.25 s, 60 s / never) over 3..5 beats", sc)
    rep.assumptions += API_ASSUME


def check_c14(rep):
    q = rep.tier == "quick"
    sc = [(f"c14-{p}-{s}", p, *GC.c14_script(s, p)) for i, s in enumerate(seeds(500 if q else 8000, 14))
          for p in (("at4",) if i % 2 == 0 else ("at5",))]
    run_generated(rep, "connection loss after initialisation x console state changes x outage length; AT4 group-status gaps", sc)
    rep.assumptions += API_ASSUME


def check_c15_api(rep, n):
    sc = [(f"c15-{p}-{s}", p, *GC.c15_script(s, p)) for i, s in enumerate(seeds(n, 15))
          for p in (("at4",) if i % 2 == 0 else ("at5",))]
    run_generated(rep, "shutdown() at chosen instants of the client's life, k loop iterations, long idle, send, optional re-init", sc)


def check_c10(rep):
    import itertools
    q = rep.tier == "quick"
    sc = []
    # exhaustive cross product of the documented power x mode x fan x flags codes, 36 per script
    for proto in ("at4", "at5"):
        if proto == "at4":
            combos = list(itertools.product([0, 1], GC.AT4_MODES, range(7), range(4)))
        else:
            combos = list(itertools.product(GC.AT5_POWERS, GC.AT4_MODES, GC.AT5_FANS, range(16)))
        random.Random(lib.seed()).shuffle(combos)
        for i in range(0, len(combos), 36):
            sd = lib.seed() * 7 + i
            sc.append((f"c10x-{proto}-{i}", proto, *GC.c10_script(sd, proto, combos=list(combos[i:i + 36]))))
    sc += [(f"c10-{p}-{s}", p, *GC.c10_script(s, p)) for i, s in enumerate(seeds(300 if q else 6000, 10))
           for p in (("at4",) if i % 2 == 0 else ("at5",))]
    run_generated(rep, "status/timer/error/version histories with a snapshot after every frame; full cross product of documented AC codes", sc)
    rep.exhaustive = True
    rep.assumptions += API_ASSUME


def check_c12(rep):
    q = rep.tier == "quick"
    sc = [(f"c12-{p}-{s}", p, *GC.c10_script(s, p, subscribers=True, raising=(i % 3 == 0))) for i, s in enumerate(seeds(500 if q else 10000, 12))
          for p in (("at4",) if i % 2 == 0 else ("at5",))]
    run_generated(rep, "histories with subscribe / unsubscribe / double-subscribe placements, raising subscribers, unchanged repeats", sc)
    rep.assumptions += API_ASSUME


def _c11_scripts(q, salt):
    sc = []
    # all 2^5 mode bitmaps x sampled fan bitmaps (quick) / all fan bitmaps (thorough)
    rng = random.Random(lib.seed() + salt)
    for proto in ("at4", "at5"):
        nf = 128 if proto == "at4" else 256
        fans = list(range(nf)) if not q else rng.sample(range(nf), 6)
        for modes in range(32):
            for f in (fans if not q else rng.sample(fans, 2)):
                sd = rng.randrange(1 << 30)
                sc.append((f"c11-{proto}-{modes}-{f}-{sd}", proto, *GC.c11_script(sd, proto, bitmap=(modes, f))))
    sc += [(f"c11r-{p}-{s}", p, *GC.c11_script(s, p)) for i, s in enumerate(seeds(150 if q else 4000, salt))
           for p in (("at4",) if i % 2 == 0 else ("at5",))]
    return sc


def check_c11(rep):
    q = rep.tier == "quick"
    run_generated(rep, "public control calls over ability bitmaps x enum arguments x 0.05 degC grid x damper -5..105 x timers", _c11_scripts(q, 11))
    rep.assumptions += API_ASSUME


def check_c04(rep):
    q = rep.tier == "quick"
    run_generated(rep, "public control calls: transmitted frame read by the vendor-derived reference reading", _c11_scripts(q, 4),
                  also=("Addressing", "GarbledFrame"))
    rep.assumptions += API_ASSUME
