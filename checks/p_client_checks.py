"""API-level checks (C04 C08 C09 C10 C11 C12 C14 C15 C19)."""
import os
import random

from . import gen_client as GC
from . import lib
from . import p_client as PC
from . import p_socket as PS


def seeds(n, salt):
    rng = random.Random(lib.seed() * 1000003 + salt)
    return [rng.randrange(1 << 30) for _ in range(n)]


def judge(rep, verdicts, metas, also=()):
    PS.judge(rep, verdicts, metas, also=also)


CHUNK = 1500      # scripts executed, validated and judged at a time (bounds the memory of the thorough tier)


def run_generated(rep, name, scripts, also=()):
    for k in range(0, len(scripts), CHUNK):
        verdicts, metas = PC.run_batch(rep, scripts[k:k + CHUNK])
        judge(rep, verdicts, metas, also=also)
        del verdicts, metas
    rep.part(name, scripts=len(scripts))
    if scripts:
        rep.sample({"kind": name, "meta": scripts[0][3], "script_head": scripts[0][2][:10]})


API_ASSUME = [
    "the simulated console's frames are built by independent builders (harness/console.py); what they mean is decided by the TLA+ wire layer",
    "ClientContract (TLA+) is the reading of the property; ApiModel (TLA+) gives the expected attribute values and command readings",
    "virtual time on a 125 ms grid; exact ties with deadlines are not generated except where the statement defines the outcome",
]


def check_c09(rep):
    q = rep.tier == "quick"
    sc = [(f"c09-{p}-{s}", p, *GC.c09_script(s, p)) for i, s in enumerate(seeds(700 if q else 12000, 9))
          for p in (("at4",) if i % 2 == 0 else ("at5",))]
    run_generated(rep, "initialisation scenarios: installations x extras x segmentation x silent step x connect delay", sc)
    for proto in ("at4", "at5"):
        l2c_exhaustive(rep, f"handshake / init() / shutdown interleavings ({proto})",
                       dict(PROTO=f'"{proto}"', MaxEnv=9 if q else 11, MaxFrames=7))
    l2c_replay(rep, 600 if q else 3000)
    rep.assumptions += API_ASSUME


def check_c08(rep):
    q = rep.tier == "quick"
    sc = [(f"c08-{p}-{s}", p, *GC.c08_script(s, p)) for i, s in enumerate(seeds(500 if q else 8000, 8))
          for p in (("at4",) if i % 2 == 0 else ("at5",))]
    run_generated(rep, "heartbeat answer patterns (prompt / late by 10 s, 29.875 s, 30.25 s, 60 s / never) over 3..5 beats", sc)
    # custom interval / timeout configurations: a bare HeartbeatManager on a real socket, one TLC batch per configuration
    nper = 60 if q else 1500
    for (iv, to) in GC.HB_CONFIGS:
        sc = [(f"c08hb-{iv}-{to}-{p}-{s}", p, *GC.c08_custom_script(s, p, iv, to)) for i, s in enumerate(seeds(nper, 8 + iv % 97))
              for p in (("at4",) if i % 2 == 0 else ("at5",))]
        verdicts, metas = PC.run_batch(rep, sc, module="Trace_Heartbeat", target="heartbeat",
                                       cfg=f"CONSTANTS QMAX = 10 HB_I = {iv} HB_T = {to}\nINIT Init\nNEXT Next\nCHECK_DEADLOCK FALSE\n")
        judge(rep, verdicts, metas)
        rep.part(f"HeartbeatManager with HeartbeatConfig(interval={iv} ms, timeout={to} ms): answer patterns, silence onsets, stop / start", scripts=len(sc))
    l2c_exhaustive(rep, "heartbeat loop and watchdog: environment budget spent after the first initialisation (at5)",
                   dict(PROTO='"at5"', MaxEnv=6 if q else 8, MaxFrames=9, Notifies="FALSE", PostInit="TRUE"))
    if not q:
        l2c_exhaustive(rep, "heartbeat loop and watchdog incl. the handshake phase (at5)",
                       dict(PROTO='"at5"', MaxEnv=12, MaxFrames=8, Notifies="FALSE"))
        l2c_sensitivity(rep, "F_WATCHDOG", dict(PROTO='"at5"', MaxEnv=5, MaxFrames=9, Notifies="FALSE", PostInit="TRUE"), "ContractHolds")
    rep.assumptions += API_ASSUME


def check_c14(rep):
    q = rep.tier == "quick"
    sc = [(f"c14-{p}-{s}", p, *GC.c14_script(s, p)) for i, s in enumerate(seeds(500 if q else 8000, 14))
          for p in (("at4",) if i % 2 == 0 else ("at5",))]
    run_generated(rep, "connection loss after initialisation x console state changes x outage length; AT4 group-status gaps", sc)
    l2c_exhaustive(rep, "link loss / refresh / AT4 poll: environment budget spent after the first initialisation (at4)",
                   dict(PROTO='"at4"', MaxEnv=6 if q else 7, MaxFrames=9, Notifies="FALSE", PostInit="TRUE"))
    if not q:
        l2c_exhaustive(rep, "link loss / refresh after initialisation (at5)",
                       dict(PROTO='"at5"', MaxEnv=7, MaxFrames=9, Notifies="FALSE", PostInit="TRUE"))
        l2c_exhaustive(rep, "link loss / refresh / AT4 poll incl. the handshake phase (at4)",
                       dict(PROTO='"at4"', MaxEnv=12, MaxFrames=8, Notifies="FALSE"))
    rep.assumptions += API_ASSUME


def check_c15_api(rep, n):
    sc = [(f"c15-{p}-{s}", p, *GC.c15_script(s, p)) for i, s in enumerate(seeds(n, 15))
          for p in (("at4",) if i % 2 == 0 else ("at5",))]
    # "a later init() works as on a fresh object and rebuilds the model from scratch": the initialisation clauses are
    # part of C15 in these scripts (every script that re-initialises does so after a shutdown)
    run_generated(rep, "shutdown() at chosen instants of the client's life, k loop iterations, long idle, send, optional re-init; "
                       "shutdown and re-init while the handler of the last handshake answer is still running", sc,
                  also=("InitTrueEarly", "InitNotTrue", "InitEarlyFalse", "InitHangs", "InitialisedWrong", "HandshakeStalled", "HandshakeOrder"))
    l2c_exhaustive(rep, "shutdown() enabled in every state of the client (at4)", dict(PROTO='"at4"', MaxEnv=10, MaxFrames=7))
    if n > 500:
        l2c_exhaustive(rep, "shutdown() enabled in every state of the client (at5)", dict(PROTO='"at5"', MaxEnv=11, MaxFrames=7))
        l2c_sensitivity(rep, "F_RECHECK", dict(PROTO='"at4"', MaxEnv=10, MaxFrames=7), "ShutdownIsFinal")
    l2c_replay(rep, 400 if n <= 500 else 3000)


def check_c02_api(rep, n):
    """Which retry policy each public command really gets: a write failure cuts off the command's frame."""
    sc = [(f"c02api-{p}-{s}", p, *GC.c02_api_script(s, p)) for i, s in enumerate(seeds(n, 2))
          for p in (("at4",) if i % 2 == 0 else ("at5",))]
    run_generated(rep, "public commands whose frame is cut off by a write failure: the power toggle is never written again, every other "
                       "command is (first on the next connection), also when the re-send fails too", sc)


def check_c10(rep):
    import itertools
    q = rep.tier == "quick"
    sc = []
    # exhaustive cross product of the documented power x mode x fan x flags codes, 36 per script
    for proto in ("at4", "at5"):
        if proto == "at4":
            combos = list(itertools.product([0, 1], GC.AT4_MODES, range(7), range(4)))
        else:
            combos = list(itertools.product(GC.AT5_POWERS, GC.AT4_MODES, GC.AT5_FANS, range(16)))
        random.Random(lib.seed()).shuffle(combos)
        for i in range(0, len(combos), 36):
            sd = lib.seed() * 7 + i
            sc.append((f"c10x-{proto}-{i}", proto, *GC.c10_script(sd, proto, combos=list(combos[i:i + 36]))))
    sc += [(f"c10-{p}-{s}", p, *GC.c10_script(s, p)) for i, s in enumerate(seeds(300 if q else 6000, 10))
           for p in (("at4",) if i % 2 == 0 else ("at5",))]
    run_generated(rep, "status/timer/error/version histories with a snapshot after every frame; full cross product of documented AC codes", sc)
    rep.exhaustive = True
    rep.assumptions += API_ASSUME


def check_c12(rep):
    q = rep.tier == "quick"
    sc = [(f"c12-{p}-{s}", p, *GC.c10_script(s, p, subscribers=True, raising=(i % 3 == 0))) for i, s in enumerate(seeds(500 if q else 10000, 12))
          for p in (("at4",) if i % 2 == 0 else ("at5",))]
    run_generated(rep, "histories with subscribe / unsubscribe / double-subscribe placements, raising subscribers, subscribers that (un)subscribe inside their callback, unchanged repeats", sc)
    # ClientImpl with subscribers: who is called for which frame, under (un)subscription at any moment, link loss
    # with refresh, shutdown and re-init (the AC / zone objects and their subscribers are rebuilt)
    for proto in ("at4", "at5"):
        l2c_exhaustive(rep, f"subscribers x frames x link loss x shutdown / re-init, after the first initialisation ({proto})",
                       dict(PROTO=f'"{proto}"', MaxEnv=4 if q else 5, MaxFrames=10, Notifies="TRUE", PostInit="TRUE", Subs="TRUE"), timeout=3000)
    if not q:
        l2c_sensitivity(rep, "F_ZONE2AC", dict(PROTO='"at5"', MaxEnv=4, MaxFrames=10, Notifies="TRUE", PostInit="TRUE", Subs="TRUE"), "ContractHolds")
    l2c_replay(rep, 300 if q else 2500, over=dict(Subs="TRUE", PostInit="TRUE", MaxEnv=9, MaxFrames=12),
               what="ClientImpl schedules with (un)subscriptions replayed into the real client")
    rep.assumptions += API_ASSUME


def _c11_scripts(q, salt):
    sc = []
    # all 2^5 mode bitmaps x sampled fan bitmaps (quick) / all fan bitmaps (thorough)
    rng = random.Random(lib.seed() + salt)
    for proto in ("at4", "at5"):
        nf = 128 if proto == "at4" else 256
        fans = list(range(nf)) if not q else rng.sample(range(nf), 6)
        for modes in range(32):
            for f in (fans if not q else rng.sample(fans, 2)):
                sd = rng.randrange(1 << 30)
                sc.append((f"c11-{proto}-{modes}-{f}-{sd}", proto, *GC.c11_script(sd, proto, bitmap=(modes, f))))
    sc += [(f"c11r-{p}-{s}", p, *GC.c11_script(s, p)) for i, s in enumerate(seeds(150 if q else 4000, salt))
           for p in (("at4",) if i % 2 == 0 else ("at5",))]
    return sc


def l2c_commands(rep, q):
    """ClientImpl with public control calls: WHEN a call is refused, raises not-open, is written at once or is
    held for a down link (30 s lifetime), under link loss / shutdown / re-init interleavings."""
    for proto in ("at4", "at5"):
        l2c_exhaustive(rep, f"control calls x link loss x shutdown x clock, after the first initialisation ({proto})",
                       dict(PROTO=f'"{proto}"', MaxEnv=4 if q else (6 if proto == "at4" else 5), MaxFrames=9, Notifies="FALSE",
                            PostInit="TRUE", Cmds="TRUE"), timeout=3000)
    l2c_replay(rep, 400 if q else 2500, over=dict(Cmds="TRUE", PostInit="TRUE", MaxEnv=8, MaxFrames=12),
               what="ClientImpl schedules with control calls replayed into the real client")


def check_c11(rep):
    q = rep.tier == "quick"
    run_generated(rep, "public control calls over ability bitmaps x enum arguments x 0.05 degC grid x damper -5..105 x timers", _c11_scripts(q, 11))
    l2c_commands(rep, q)
    rep.assumptions += API_ASSUME


def check_c04(rep):
    q = rep.tier == "quick"
    run_generated(rep, "public control calls: transmitted frame read by the vendor-derived reference reading", _c11_scripts(q, 4),
                  also=("Addressing", "GarbledFrame"))
    rep.assumptions += API_ASSUME


def _pair_cases(tr4, tr5):
    """Align the two recorded executions step by step (purely positional)."""
    def extract(tr):
        snaps, cmds = [], []
        i = 0
        while i < len(tr):
            ev = tr[i]
            if ev["e"] == "snapshot" and ev.get("tag") == "pair":
                acs = ev["model"]["air_conditioners"]
                acs = acs if isinstance(acs, list) else []
                # the zones of a unit are matched by id, not by position (no statement fixes their order; the
                # AT4 client lists them in the iteration order of a set)
                norm = []
                for a in acs:
                    zs = a.get("zones")
                    if isinstance(zs, list) and all(isinstance(z, dict) and isinstance(z.get("zone_id"), dict) and "v" in z["zone_id"] for z in zs):
                        a = dict(a, zones=sorted(zs, key=lambda z: z["zone_id"]["v"]))
                    norm.append(a)
                snaps.append(norm)
            if ev["e"] == "call" and ev.get("target", "socket") != "socket" and ev["method"] not in ("init", "shutdown"):
                cid = ev["id"]
                frame, res = [], "none"
                j = i + 1
                while j < len(tr) and tr[j]["e"] != "quiesce":
                    if tr[j]["e"] == "write":
                        frame += tr[j]["b"]
                    if tr[j]["e"] == "ret" and tr[j]["id"] == cid:
                        res = tr[j]["res"]
                    j += 1
                cmds.append((res, frame))
            i += 1
        return snaps, cmds
    s4, c4 = extract(tr4)
    s5, c5 = extract(tr5)
    cases = [{"k": "snap", "a": a, "b": b} for a, b in zip(s4, s5)]
    cases += [{"k": "cmd", "ra": a[0], "rb": b[0], "fa": a[1], "fb": b[1]} for a, b in zip(c4, c5)]
    return cases, len(s4) == len(s5) and len(c4) == len(c5)


def check_c19(rep):
    q = rep.tier == "quick"
    scripts, pairs = [], []
    for s in seeds(150 if q else 3000, 19):
        s4, s5, meta = GC.c19_pair(s)
        scripts.append((f"c19-{s}-at4", "at4", s4, dict(meta, proto="at4")))
        scripts.append((f"c19-{s}-at5", "at5", s5, dict(meta, proto="at5")))
        pairs.append(s)
    verdicts, metas = PC.run_batch(rep, scripts)
    judge(rep, verdicts, metas)
    traces = []
    for s in pairs:
        tr4, tr5 = metas[f"c19-{s}-at4"][3], metas[f"c19-{s}-at5"][3]
        if tr4 is None or tr5 is None:
            continue
        cases, aligned = _pair_cases(tr4, tr5)
        if not aligned:
            rep.machinery.append(f"pair {s}: executions do not align")
            continue
        traces.append({"id": f"pair-{s}", "proto": "at4", "cases": cases, "ev": cases})
    v2, stats = lib.validate("Check_Pair", traces, cfg="INIT Init\nNEXT Next\nCHECK_DEADLOCK FALSE\n")
    rep.add_tlc(stats)
    for sid, viol in v2.items():
        for clause, k in viol:
            s = sid.split("-")[1]
            rep.violation(clause, f"pair={sid} case={k}", {"key": clause, "clause": clause, "seed": int(s),
                                                          "script_at4": metas[f"c19-{s}-at4"][1], "script_at5": metas[f"c19-{s}-at5"][1]})
    rep.part("paired histories (same abstract installation, status changes and calls) on both generations", pairs=len(pairs))
    rep.sample({"kind": "paired scenario", "steps": scripts[0][3]["steps"], "at4_head": scripts[0][2][:8]})
    rep.assumptions += API_ASSUME + ["paired scenarios use integer temperatures, the common enums, turbo-capable zones and equal limits for all modes (documented differences masked)"]


# ---------------------------------------------------------------------------------------------
# ClientImpl: the implementation-shaped model of the API layer

L2C_INV_PROPS = {"ShutdownIsFinal": "C15", "HeartbeatWhileReady": "C08"}


def l2c_exhaustive(rep, name, over, timeout=2400):
    if os.environ.get("VERIF_SKIP_EXHAUSTIVE"):     # exploratory seed sweeps only: the exhaustive runs do not depend on the seed
        return None
    from . import p_l2c as L2C
    res = L2C.model_check(over, timeout=timeout)
    rep.add_tlc({"states": res["states"], "transitions": res["transitions"]})
    rep.part("ClientImpl model check: " + name, constants=over, states=res["states"], depth=res["depth"], complete=res["complete"],
             wall_s=res["wall"], invariants_violated=res["invariants_violated"], clause=res["clause"])
    if res["error"]:
        rep.machinery.append(f"TLC error in ClientImpl {name}: {res['tail'][-600:]}")
        return
    for inv in res["invariants_violated"]:
        props = lib.props_of(res["clause"]) if inv == "ContractHolds" else [L2C_INV_PROPS.get(inv, "")]
        clause = res["clause"] if inv == "ContractHolds" else inv
        if rep.prop in props:
            rep.violation(clause, f"ClientImpl model ({name}) violates {inv}", {"key": "L2C:" + clause, "clause": clause, "model": "ClientImpl", "constants": over})


def l2c_replay(rep, n, over=None, what="ClientImpl schedules replayed into the real client"):
    from . import p_l2c as L2C
    batch = []
    for proto in ("at4", "at5"):
        scripts, gen, bad = L2C.simulate_scripts(n // 2, lib.seed() % 100000, proto, over=over)
        if bad:
            rep.part("note", text="ClientImpl simulation reported a violation in the MODEL", tail=bad[0][-600:])
        for i, l2 in enumerate(scripts[:max(1, n // 2)]):     # (the invariant prints several prefixes per behaviour: cap)
            hs, meta = L2C.to_harness(l2, proto, seed=i)
            batch.append((f"l2c-{proto}-{i}", proto, hs, meta))
    verdicts, metas = PC.run_batch(rep, batch)
    judge(rep, verdicts, metas)
    rep.part(what, scripts=len(batch))
    if batch:
        rep.sample({"kind": "ClientImpl schedule", "l2_script": batch[0][3]["l2"]})


def l2c_sensitivity(rep, flag, over, expect_inv, timeout=1200):
    """Vacuity guard: with the modelled repair switched off the model must break the invariant, otherwise
    the exhaustive run above would not be exercising the property (reported as a machinery failure)."""
    if os.environ.get("VERIF_SKIP_EXHAUSTIVE"):     # exploratory seed sweeps only: the exhaustive runs do not depend on the seed
        return None
    from . import p_l2c as L2C
    o = dict(over)
    o[flag] = "FALSE"
    res = L2C.model_check(o, timeout=timeout)
    rep.add_tlc({"states": res["states"], "transitions": res["transitions"]})
    got = expect_inv in res["invariants_violated"]
    rep.part(f"ClientImpl sensitivity: {flag}=FALSE (pre-repair behaviour) must violate {expect_inv}", violated=res["invariants_violated"],
             clause=res["clause"], states=res["states"], as_expected=got)
    if not got:
        rep.machinery.append(f"ClientImpl with {flag}=FALSE does not violate {expect_inv}: the model does not exercise the property")
