"""Payload and message enumerations for the wire-level checks (C03 C05 C17).

Payloads are built by the simulated console's builders (harness/console.py) from field values in the
documented domains, then swept: every byte position through all 256 values, adjacent byte pairs,
record counts, announced strides.  Nothing here knows what a payload means."""
import itertools
import random
import re

from harness import console as C

NAMES = [b"Living", b"K", "Küche".encode(), "寝室".encode(), "\U0001F600".encode(), b"Bed 12345678", b""]


def bases(proto):
    """{kind: [(type, payload), ...]} intact payloads a console can send."""
    if proto == "at4":
        g = [{"n": 1, "power": 1, "method": 1, "pct": 100, "sp": 26, "sensor": 1, "temp_raw": 780},
             {"n": 0, "power": 0, "pct": 55, "sp": 0, "sensor": 0, "temp_raw": None},
             {"n": 15, "power": 3, "method": 1, "pct": 5, "sp": 31, "sensor": 1, "temp_raw": 505, "turbo": 1, "batt_low": 1, "spill": 1}]
        a = [{"n": 0, "power": 1, "mode": 4, "fan": 2, "sp": 26, "temp_raw": 780},
             {"n": 3, "power": 0, "mode": 8, "fan": 6, "sp": 17, "temp_raw": 700, "spill": 1, "timer": 1, "err": 0xFFFE}]
        ab = [{"n": 0, "name": b"UNIT", "start": 0, "count": 4, "modes": 0x17, "fans": 0x1D, "min": 17, "max": 31, "groups": [0, 1, 2]},
              {"n": 1, "name": b"Second AC", "start": 4, "count": 2, "modes": 0x1F, "fans": 0x7F, "min": 16, "max": 30}]
        return {
            "GroupStatus": [(0x2B, C.at4_group_status(g[:1])), (0x2B, C.at4_group_status(g[1:2])), (0x2B, C.at4_group_status(g))],
            "AcStatus": [(0x2D, C.at4_ac_status(a[:1])), (0x2D, C.at4_ac_status(a))],
            "AcTimerStatus": [(0x37, C.at4_timer_status([((2, 3), (4, 5)), (None, (23, 59)), ((0, 0), None), (None, None)]))],
            "AcAbility": [(0x1F, C.at4_ability(ab[:1])), (0x1F, C.at4_ability(ab[1:])), (0x1F, C.at4_ability(ab)),
                          (0x1F, C.at4_ability([dict(ab[0], groups=[])])),                       # bitmap present, no group
                          (0x1F, C.at4_ability([dict(ab[0], groups=[]), dict(ab[1], groups=list(range(16)))])),
                          (0x1F, C.at4_ability([dict(ab[1], groups=[15]), dict(ab[0], n=2, groups=[0, 8])]))],
            "GroupNames": [(0x1F, C.at4_group_names([(0, b"Living"), (1, b"Kitchen"), (2, b"Bedroom1")]))],
            "AcError": [(0x1F, C.error_info(0, b"ER: FFFE")), (0x1F, C.error_info(1, b""))],
            "ConsoleVersion": [(0x1F, C.version(False, b"1.3.3|1.3.3")), (0x1F, C.version(True, b"2.3.4"))],
        }
    z = [{"n": 0, "power": 1, "method": 1, "pct": 100, "sp": 150, "sensor": 1, "temp_raw": 743},
         {"n": 1, "power": 0, "pct": 100, "sp": 0xFF, "sensor": 0, "temp_raw": 0x7FF},
         {"n": 15, "power": 3, "method": 1, "pct": 35, "sp": 80, "sensor": 1, "temp_raw": 650, "spill": 1, "batt_low": 1}]
    a = [{"n": 0, "power": 1, "mode": 1, "fan": 2, "sp": 120, "temp_raw": 730},
         {"n": 1, "power": 5, "mode": 9, "fan": 12, "sp": 100, "temp_raw": 740, "turbo": 1, "bypass": 1, "spill": 1, "timer": 1, "err": 0xABCD}]
    ab = [{"n": 0, "name": b"UNIT", "start": 0, "count": 4, "modes": 0x17, "fans": 0x1D, "min_cool": 16, "max_cool": 31, "min_heat": 18, "max_heat": 31},
          {"n": 1, "name": "Zweite".encode(), "start": 4, "count": 3, "modes": 0x1F, "fans": 0xFF, "min_cool": 17, "max_cool": 30, "min_heat": 16, "max_heat": 29}]
    return {
        "ZoneStatus": [(0xC0, C.at5_zone_status(z[:1])), (0xC0, C.at5_zone_status(z[1:2])), (0xC0, C.at5_zone_status(z))],
        "AcStatus": [(0xC0, C.at5_ac_status(a[:1])), (0xC0, C.at5_ac_status(a)), (0xC0, C.at5_ac_status(a, rlen=8))],
        "AcTimerStatus": [(0xC0, C.at5_timer_status([(0, (2, 3), (4, 5)), (1, None, (23, 59))]))],
        "AcAbility": [(0x1F, C.at5_ability(ab[:1])), (0x1F, C.at5_ability(ab))],
        "ZoneNames": [(0x1F, C.at5_zone_names([(0, b"Living"), (1, "Küche".encode()), (2, b"")]))],
        "AcError": [(0x1F, C.error_info(0, b"ER: FFFE")), (0x1F, C.error_info(1, b""))],
        "ConsoleVersion": [(0x1F, C.version(False, b"1.0.1,1.0.1")), (0x1F, C.version(True, b"9.8"))],
    }


def in_scope(proto, kind, payload):
    """C05 quantifies the ability records 'with and without the group bitmap' (AT4: following length
    22 / 24) and the documented AT5 length 24; other following-length bytes are outside the property."""
    if kind != "AcAbility":
        return True
    ok = (22, 24) if proto == "at4" else (24,)
    i = 2
    while i + 1 < len(payload):
        if payload[i + 1] not in ok:
            return False
        i += 2 + payload[i + 1]
    return True


def header_len(proto, typ):
    """bytes of the payload that precede the first record (wrapper ids / sub-header)."""
    if typ == 0x1F:
        return 2
    if typ == 0xC0:
        return 8
    return 0


def byte_sweep(proto, kinds=None):
    """Every byte position of every base payload through all 256 values."""
    for kind, lst in bases(proto).items():
        if kinds and kind not in kinds:
            continue
        for bi, (typ, p) in enumerate(lst):
            for pos in range(len(p)):
                for v in range(256):
                    q = list(p)
                    q[pos] = v
                    if in_scope(proto, kind, q):
                        yield kind, typ, q, f"{kind}/b{bi}/pos{pos}"


def pair_sweep(proto, rng, per_pair=None, kinds=None):
    """Adjacent byte pairs through all 65 536 values (or `per_pair` sampled values) on the first base."""
    for kind, lst in bases(proto).items():
        if kinds and kind not in kinds:
            continue
        typ, p = lst[0]
        lo = header_len(proto, typ)
        for pos in range(lo, len(p) - 1):
            vals = range(65536) if per_pair is None else [rng.randrange(65536) for _ in range(per_pair)]
            for v in vals:
                q = list(p)
                q[pos] = v >> 8
                q[pos + 1] = v & 255
                if in_scope(proto, kind, q):
                    yield kind, typ, q, f"{kind}/pair{pos}"


def fill_tails(payload, known, rng):
    """AT5 0xC0 payload: bytes of each record beyond the known layout become arbitrary."""
    p = list(payload)
    normal = (p[2] << 8) | p[3]
    stride = (p[4] << 8) | p[5]
    count = (p[6] << 8) | p[7]
    for k in range(count):
        for j in range(known, stride):
            p[8 + normal + k * stride + j] = rng.randrange(256)
    return p


def count_sweep(proto):
    """Record counts 0..16 and, for AT5, announced strides known .. known+4 (tails zero and arbitrary)."""
    for item in _count_sweep(proto):
        yield item
        kind, typ, pl, tag = item
        m = re.search(r"/stride(\d+)$", tag)
        known = {"ZoneStatus": 8, "AcStatus": 8, "AcTimerStatus": 9}.get(kind)
        if proto == "at5" and m and known and int(m.group(1)) > known:
            rng = random.Random(len(pl) * 131 + int(m.group(1)))
            yield kind, typ, fill_tails(pl, known, rng), tag.replace("/stride", "/tailstride")


def _count_sweep(proto):
    rng = random.Random(5)
    if proto == "at4":
        for n in range(0, 17):
            g = [{"n": i, "power": rng.choice([0, 1, 3]), "method": i % 2, "pct": (i * 7) % 101, "sp": 16 + i, "sensor": i % 2,
                  "temp_raw": 500 + 13 * i if i % 3 else None} for i in range(n)]
            yield "GroupStatus", 0x2B, C.at4_group_status(g), f"GroupStatus/count{n}"
            a = [{"n": i % 4, "power": i % 2, "mode": [0, 1, 2, 3, 4, 8, 9][i % 7], "fan": i % 7, "sp": 16 + i, "temp_raw": 600 + 9 * i}
                 for i in range(n)]
            yield "AcStatus", 0x2D, C.at4_ac_status(a), f"AcStatus/count{n}"
            yield "GroupNames", 0x1F, C.at4_group_names([(i, NAMES[i % len(NAMES)][:8]) for i in range(n)]), f"GroupNames/count{n}"
            if n:
                yield "GroupNames", 0x1F, C.at4_group_names([(i, NAMES[(i + 7 - n) % len(NAMES)][:8]) for i in range(n)]), f"GroupNames/count{n}/emptylast"
        for n in range(0, 5):
            ab = [{"n": i, "name": NAMES[i][:16], "start": 4 * i, "count": 4, "modes": 0x1F, "fans": 0x7F, "min": 16, "max": 30,
                   "groups": ([4 * i, 4 * i + 1] if gb else None)} for i in range(n) for gb in [n % 2 == 0]]
            yield "AcAbility", 0x1F, C.at4_ability(ab), f"AcAbility/count{n}"
        return
    for n in range(0, 17):
        for extra in range(0, 5):
            z = [{"n": i, "power": rng.choice([0, 1, 3]), "method": i % 2, "pct": (i * 7) % 101, "sp": 100 + 5 * i, "sensor": i % 2,
                  "temp_raw": 500 + 13 * i if i % 3 else 0x7FF} for i in range(n)]
            yield "ZoneStatus", 0xC0, C.at5_zone_status(z, rlen=8 + extra), f"ZoneStatus/count{n}/stride{8 + extra}"
            a = [{"n": i % 16, "power": [0, 1, 2, 3, 5][i % 5], "mode": [0, 1, 2, 3, 4, 8, 9][i % 7],
                  "fan": [0, 1, 2, 3, 4, 5, 6, 9, 10, 11, 12, 13, 14][i % 13], "sp": 100 + 5 * i, "temp_raw": 600 + 9 * i} for i in range(n)]
            yield "AcStatus", 0xC0, C.at5_ac_status(a, rlen=8 + extra), f"AcStatus/count{n}/stride{8 + extra}"
            t = [(i % 16, (i % 24, i % 60) if i % 2 else None, (23 - i % 24, 59 - i % 60) if i % 3 else None) for i in range(n)]
            pl = C.c0(0x33, [[ac] + C._timer(on) + C._timer(off) + [0, 0, 0, 0] for ac, on, off in t], 9 + extra)
            yield "AcTimerStatus", 0xC0, pl, f"AcTimerStatus/count{n}/stride{9 + extra}"
        yield "ZoneNames", 0x1F, C.at5_zone_names([(i, NAMES[i % len(NAMES)]) for i in range(n)]), f"ZoneNames/count{n}"
        if n:   # the empty name in first and in last position
            yield "ZoneNames", 0x1F, C.at5_zone_names([(i, NAMES[(i + 6) % len(NAMES)]) for i in range(n)]), f"ZoneNames/count{n}/emptyfirst"
            yield "ZoneNames", 0x1F, C.at5_zone_names([(i, NAMES[(i + 7 - n) % len(NAMES)]) for i in range(n)]), f"ZoneNames/count{n}/emptylast"
    for n in range(0, 5):
        for extra in range(0, 1):
            ab = [{"n": i, "name": NAMES[i][:16], "start": 4 * i, "count": 4, "extra": extra} for i in range(n)]
            yield "AcAbility", 0x1F, C.at5_ability(ab), f"AcAbility/count{n}/extra{extra}"


def field_cross(proto):
    """Full cross product of the documented codes of the enumerated fields of the AC status record."""
    if proto == "at4":
        for power, mode, fan, flags in itertools.product([0, 1], [0, 1, 2, 3, 4, 8, 9], range(7), range(4)):
            a = [{"n": 1, "power": power, "mode": mode, "fan": fan, "spill": flags & 1, "timer": flags >> 1, "sp": 24, "temp_raw": 720}]
            yield "AcStatus", 0x2D, C.at4_ac_status(a), "AcStatus/cross"
        return
    for power, mode, fan, flags in itertools.product([0, 1, 2, 3, 5], [0, 1, 2, 3, 4, 8, 9], [0, 1, 2, 3, 4, 5, 6, 9, 10, 11, 12, 13, 14], range(16)):
        a = [{"n": 2, "power": power, "mode": mode, "fan": fan, "turbo": flags & 1, "bypass": (flags >> 1) & 1, "spill": (flags >> 2) & 1,
              "timer": flags >> 3, "sp": 140, "temp_raw": 720}]
        yield "AcStatus", 0xC0, C.at5_ac_status(a), "AcStatus/cross"


def temperature_codes(proto):
    """All 2048 temperature codes and all set-point codes of the status records."""
    if proto == "at4":
        for raw in range(2048):
            yield "GroupStatus", 0x2B, C.at4_group_status([{"n": 2, "power": 1, "sensor": 1, "sp": raw % 64, "temp_raw": raw}]), "GroupStatus/temp"
            yield "AcStatus", 0x2D, C.at4_ac_status([{"n": 1, "power": 1, "sp": raw % 64, "temp_raw": raw}]), "AcStatus/temp"
        return
    for raw in range(2048):
        yield "ZoneStatus", 0xC0, C.at5_zone_status([{"n": 2, "power": 1, "sensor": 1, "sp": raw % 256, "temp_raw": raw}]), "ZoneStatus/temp"
        yield "AcStatus", 0xC0, C.at5_ac_status([{"n": 1, "power": 1, "sp": raw % 256, "temp_raw": raw}]), "AcStatus/temp"


# ---------------------------------------------------------------------------------------------
# client -> console messages (control and request classes), as descriptions for project.build

def _timer_state(t):
    return {"k": "AcTimerState", "disabled": t is None, "hour": 0 if t is None else t[0], "minute": 0 if t is None else t[1]}


def control_descs(proto, rng, n_random=200):
    out = []
    if proto == "at4":
        powers = ["UNCHANGED", "TOGGLE", "TURN_OFF", "TURN_ON", "TURBO"]
        methods = ["UNCHANGED", "CHANGE", "DAMPER", "TEMPERATURE"]
        settings = [[], ["INCREASE"], ["DECREASE"]] + [[{"k": "GroupDamperControl", "open_percentage": p}] for p in range(0, 101, 5)] + \
                   [[{"k": "GroupSetPointControl", "set_point": t}] for t in range(0, 41)]
        for g in range(16):
            out.append({"k": "GroupControlMessage", "group_number": g, "power": "TURN_ON", "control_method": "UNCHANGED", "setting": []})
        for p_, m, s_ in [(p_, "UNCHANGED", []) for p_ in powers] + [("UNCHANGED", m, []) for m in methods] + [("UNCHANGED", "UNCHANGED", s_) for s_ in settings]:
            out.append({"k": "GroupControlMessage", "group_number": 3, "power": p_, "control_method": m, "setting": s_})
        for _ in range(n_random):
            out.append({"k": "GroupControlMessage", "group_number": rng.randrange(16), "power": rng.choice(powers),
                        "control_method": rng.choice(methods), "setting": rng.choice(settings)})
        apow = ["UNCHANGED", "TOGGLE", "TURN_OFF", "TURN_ON"]
        modes = ["AUTO", "HEAT", "DRY", "FAN", "COOL", "UNCHANGED"]
        fans = ["AUTO", "QUIET", "LOW", "MEDIUM", "HIGH", "POWERFUL", "TURBO", "UNCHANGED"]
        sps = [[], ["INCREASE"], ["DECREASE"]] + [[{"k": "AcSetPointValue", "set_point": t}] for t in range(0, 63)]
        for ac, p_, m, f, s_ in [(a, "UNCHANGED", "UNCHANGED", "UNCHANGED", []) for a in range(4)] + \
                [(1, p_, "UNCHANGED", "UNCHANGED", []) for p_ in apow] + [(1, "UNCHANGED", m, "UNCHANGED", []) for m in modes] + \
                [(1, "UNCHANGED", "UNCHANGED", f, []) for f in fans] + [(1, "UNCHANGED", "UNCHANGED", "UNCHANGED", s_) for s_ in sps] + \
                [(rng.randrange(4), rng.choice(apow), rng.choice(modes), rng.choice(fans), rng.choice(sps)) for _ in range(n_random)]:
            out.append({"k": "AcControlMessage", "ac_number": ac, "power": p_, "mode": m, "fan_speed": f, "set_point_control": s_})
        for _ in range(40):
            recs = [{"k": "AcTimerStatusData", "ac_number": i,
                     "on_timer": _timer_state(rng.choice([None, (rng.randrange(24), rng.randrange(60))])),
                     "off_timer": _timer_state(rng.choice([None, (rng.randrange(24), rng.randrange(60))]))} for i in range(4)]
            out.append({"k": "AcTimerControlMessage", "ac_timer_status": recs})
        ext = [{"k": "ConsoleVersionRequest"}, {"k": "GroupNamesRequest", "group_number": list(b"ALL")}, {"k": "AcAbilityRequest", "ac_number": list(b"ALL")}]
        ext += [{"k": "GroupNamesRequest", "group_number": g} for g in range(16)]
        ext += [{"k": "AcAbilityRequest", "ac_number": a} for a in range(4)] + [{"k": "AcErrorInformationRequest", "ac_number": a} for a in range(4)]
        for h in list(range(24)) + [0, 5]:
            for mi in (0, 1, 30, 59):
                ext.append({"k": "QuickTimerMessage", "ac_number": rng.randrange(4), "timer_type": rng.choice(["ON_TIMER", "OFF_TIMER"]),
                            "duration": {"k": "timedelta", "d": 0, "s": h * 3600 + mi * 60, "us": 0}})
        out += [{"k": "ExtendedMessage", "sub_message": e} for e in ext]
        out += [{"k": "GroupStatusRequest"}, {"k": "AcStatusRequest"}, {"k": "AcTimerStatusRequest"}]
        return out
    zp = ["UNCHANGED", "TOGGLE", "TURN_OFF", "TURN_ON", "TURBO"]
    zs = [[], ["INCREASE"], ["DECREASE"]] + [[{"k": "ZoneDamperControl", "open_percentage": p}] for p in range(0, 101, 5)] + \
         [[{"k": "ZoneSetPointControl", "set_point": [t]}] for t in range(10000, 35001, 100)]

    def zrec(z, p_, s_):
        return {"k": "ZoneControlData", "zone_number": z, "zone_power": p_, "zone_setting": s_}
    subs = []
    subs += [{"k": "ZoneControlMessage", "zone_control": [zrec(z, "TURN_ON", [])]} for z in range(16)]
    subs += [{"k": "ZoneControlMessage", "zone_control": [zrec(2, p_, [])]} for p_ in zp]
    subs += [{"k": "ZoneControlMessage", "zone_control": [zrec(2, "UNCHANGED", s_)]} for s_ in zs]
    for n in range(0, 17):
        subs.append({"k": "ZoneControlMessage", "zone_control": [zrec(i, rng.choice(zp), rng.choice(zs)) for i in range(n)]})
    ap = ["UNCHANGED", "TOGGLE", "TURN_OFF", "TURN_ON", "SET_TO_AWAY", "SET_TO_SLEEP"]
    modes = ["AUTO", "HEAT", "DRY", "FAN", "COOL", "UNCHANGED"]
    fans = ["AUTO", "QUIET", "LOW", "MEDIUM", "HIGH", "POWERFUL", "TURBO", "INTELLIGENT_AUTO", "UNCHANGED"]
    sps = [[]] + [[t] for t in range(10000, 35001, 100)]

    def arec(a, p_, m, f, s_):
        return {"k": "AcControlData", "ac_number": a, "power": p_, "mode": m, "fan_speed": f, "set_point": s_}
    subs += [{"k": "AcControlMessage", "ac_control": [arec(a, "UNCHANGED", "UNCHANGED", "UNCHANGED", [])]} for a in range(16)]
    subs += [{"k": "AcControlMessage", "ac_control": [arec(1, p_, "UNCHANGED", "UNCHANGED", [])]} for p_ in ap]
    subs += [{"k": "AcControlMessage", "ac_control": [arec(1, "UNCHANGED", m, "UNCHANGED", [])]} for m in modes]
    subs += [{"k": "AcControlMessage", "ac_control": [arec(1, "UNCHANGED", "UNCHANGED", f, [])]} for f in fans]
    subs += [{"k": "AcControlMessage", "ac_control": [arec(1, "UNCHANGED", "UNCHANGED", "UNCHANGED", s_)]} for s_ in sps]
    for n in range(0, 17):
        subs.append({"k": "AcControlMessage", "ac_control": [arec(i % 16, rng.choice(ap), rng.choice(modes), rng.choice(fans), rng.choice(sps)) for i in range(n)]})
    for _ in range(40):
        recs = [{"k": "AcTimerStatusData", "ac_number": rng.randrange(16),
                 "on_timer": _timer_state(rng.choice([None, (rng.randrange(24), rng.randrange(60))])),
                 "off_timer": _timer_state(rng.choice([None, (rng.randrange(24), rng.randrange(60))]))} for i in range(rng.randrange(1, 5))]
        subs.append({"k": "AcTimerControlMessage", "ac_timer_status": recs})
    subs += [{"k": "ZoneStatusRequest"}, {"k": "AcStatusRequest"}, {"k": "AcTimerStatusRequest"}]
    out += [{"k": "ControlStatusMessage", "sub_message": s_} for s_ in subs]
    ext = [{"k": "ConsoleVersionRequest"}, {"k": "ZoneNamesRequest", "zone_number": list(b"ALL")}, {"k": "AcAbilityRequest", "ac_number": list(b"ALL")}]
    ext += [{"k": "ZoneNamesRequest", "zone_number": z} for z in range(16)]
    ext += [{"k": "AcAbilityRequest", "ac_number": a} for a in range(16)] + [{"k": "AcErrorInformationRequest", "ac_number": a} for a in range(16)]
    for h in list(range(24)):
        for mi in (0, 1, 30, 59):
            ext.append({"k": "QuickTimerMessage", "ac_number": rng.randrange(16), "timer_type": rng.choice(["ON_TIMER", "OFF_TIMER"]),
                        "duration": {"k": "timedelta", "d": 0, "s": h * 3600 + mi * 60, "us": 0}})
    out += [{"k": "ExtendedMessage", "sub_message": e} for e in ext]
    return out


def status_payloads(proto, rng, per_kind=150):
    """Intact console payloads whose every field is in its documented domain and whose text is valid
    UTF-8 cut at a character boundary: the objects the real decoders make of them are re-encoded in C03."""
    out = []
    for kind, typ, p, tag in count_sweep(proto):
        out.append((typ, p, tag))
    for kind, typ, p, tag in field_cross(proto):
        out.append((typ, p, tag))
    # documented domains only: AT4 Byte5 = 0xFF and AT5 codes > 2000 / AC set-point > 250 mean "not available"
    tc = [x for i, x in enumerate(temperature_codes(proto))
          if ((i // 2) < 2040 if proto == "at4" else ((i // 2) <= 2000 and ((i // 2) % 256 <= 250 or i % 2 == 0)))]
    edge = {0, 1, 499, 500, 501, 999, 1000, 1999, 2000}       # incl. 0.0 degC (code 500) and the range ends
    for i, (kind, typ, p, tag) in enumerate(tc):
        if (i // 2) in edge:
            out.append((typ, p, tag + "/edge"))
    for kind, typ, p, tag in rng.sample(tc, min(len(tc), per_kind * 2)):
        out.append((typ, p, tag))
    for kind, lst in bases(proto).items():
        for typ, p in lst:
            out.append((typ, p, kind + "/base"))
    return out
