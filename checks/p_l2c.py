"""ClientImpl (L2 of the API layer): exhaustive TLC runs against ClientContract, and TLC-generated
schedules replayed into the real client."""
import random
import re
from concurrent.futures import ThreadPoolExecutor

from harness import tlc

from . import gen_client as GC

INVS = ["ContractHolds", "ShutdownIsFinal", "HeartbeatWhileReady"]
BASE = dict(PROTO='"at4"', MaxTask=12, MaxEnv=10, MaxFrames=7, H=2, Notifies="TRUE", F_WATCHDOG="TRUE", F_RECHECK="TRUE", F_ZONE2AC="TRUE", Cmds="FALSE", PostInit="FALSE", Subs="FALSE", Record="FALSE")


def cfg(over=None, invs=INVS, emit=False):
    d = dict(BASE)
    d.update(over or {})
    s = "CONSTANTS\n" + "".join(f"  {k} = {v}\n" for k, v in d.items())
    s += "SPECIFICATION Spec\nCONSTRAINT Bound\n" + "".join(f"INVARIANT {i}\n" for i in invs)
    if emit:
        s += "INVARIANT EmitScript\n"
    return s + "CHECK_DEADLOCK FALSE\n"


def model_check(over=None, timeout=2400, heap="12g", workers=16):
    r = tlc.run("ClientImpl", cfg(over), workers=workers, heap=heap, timeout=timeout)
    viol = re.findall(r'viol \|-> (<<<<"\w+)', r.out)
    clause = viol[-1].replace('<<<<"', "") if viol else ""
    return {"invariants_violated": r.violated_invariants(), "clause": clause, "states": r.distinct, "transitions": r.generated,
            "depth": r.depth, "wall": round(r.wall, 1), "complete": "Model checking completed" in r.out, "error": r.error,
            "timeout": r.rc == 124, "tail": r.out[-1200:] if (r.error or r.rc == 124) else ""}


def simulate_scripts(n, seed, proto, over=None, depth=500, procs=8):
    o = dict(PROTO=f'"{proto}"', MaxTask=20, MaxEnv=16, MaxFrames=10, Record="TRUE")
    o.update(over or {})
    per = max(1, (n + procs - 1) // procs)
    c = cfg(o, invs=["ContractHolds"], emit=True)

    def one(k):
        return tlc.run("ClientImpl", c, workers=1, heap="2g", timeout=900, simulate=f"num={per}", depth=depth, seed=seed * 1000 + k)

    scripts, seen, gen, bad = [], set(), 0, []
    with ThreadPoolExecutor(max_workers=procs) as ex:
        for r in ex.map(one, range(procs)):
            gen += r.generated
            if r.violated_invariants() or r.error:
                bad.append(r.out[-2000:])
            for v in r.prints("SCRIPT"):
                key = repr(v[1])
                if key not in seen:
                    seen.add(key)
                    scripts.append(v[1])
    return scripts, gen, bad


def to_harness(l2, proto, seed=0):
    rng = random.Random(seed)
    b = GC.ClientBuilder(proto, rng)
    b.preamble()
    for o in l2:
        k = o["op"]
        if k == "step":
            b.op(op="step", k=o["k"])
        elif k == "call":
            if "target" in o:       # a public control call: arguments in script form
                b.call(o["target"], o["method"], list(o.get("args", [])))
            else:
                b.call("airtouch", o["method"])
        elif k in ("sub", "unsub"):
            b.op(op=k, who=o["who"], kind=o["kind"], target=o["target"])
        elif k == "conn_up":
            b.op(op="resolve", how="ok")
        elif k == "conn_down":
            b.op(op="peer_reset")
        elif k == "deliver":
            b.op(op="feed", b=o["b"], tag=o["kind"])
        elif k == "advance":
            b.op(op="advance", by=o["by"], hold=True)     # the model's clock stops AT a due timer
        elif k == "quiesce":
            b.op(op="quiesce")
    b.op(op="quiesce")
    b.op(op="snapshot", tag="end_of_schedule")
    b.shutdown()
    b.op(op="snapshot", tag="after_shutdown")
    return b.script, {"proto": proto, "l2": [dict(o, b="...") if "b" in o else o for o in l2]}
