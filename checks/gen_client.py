"""Installations, console answers and scripts for whole-client (API level) scenarios."""
import random

from harness import console as C


def installation(proto, rng, n_acs=None, n_zones=None, old_format=False):
    """A self-consistent installation: zones partitioned into consecutive ranges, one per AC."""
    n_acs = n_acs if n_acs is not None else rng.randrange(1, 5)
    n_zones = n_zones if n_zones is not None else rng.randrange(0 if proto == "at5" else 1, 9)
    cuts = sorted(rng.choice(range(0, n_zones + 1)) for _ in range(n_acs - 1)) if n_acs > 1 else []
    bounds = [0] + cuts + [n_zones]
    names = [b"Living", b"Kitchen", b"Bed 1", b"Bed 2", b"Study", "Küche".encode(), b"Z6", b"Z7", b"Z8", b"Z9", b"Z10", b"Z11",
             b"Z12", b"Z13", b"Z14", b"Z15"]
    acs = []
    for i in range(n_acs):
        zs = list(range(bounds[i], bounds[i + 1]))
        a = {"n": i, "name": [b"UNIT", b"Upstairs", b"AC3", b"AC4"][i], "zones": zs, "start": bounds[i], "count": len(zs),
             "modes": rng.choice([0x1F, 0x17, 0x1B, 0x11]), "fans": rng.choice([0x7F, 0x1D, 0x3F]) if proto == "at4" else rng.choice([0xFF, 0x1D, 0x9D]),
             "min": 16 + rng.randrange(3), "max": 28 + rng.randrange(4),
             "min_cool": 16 + rng.randrange(3), "max_cool": 28 + rng.randrange(4), "min_heat": 15 + rng.randrange(3), "max_heat": 27 + rng.randrange(4)}
        a["status"] = {"n": i, "power": rng.choice([0, 1]), "mode": rng.choice([0, 1, 2, 3, 4, 8, 9]), "fan": rng.randrange(7),
                       "sp": (20 + rng.randrange(8)) if proto == "at4" else 100 + 5 * rng.randrange(30), "temp_raw": 650 + rng.randrange(150),
                       "spill": rng.randrange(2), "timer": rng.randrange(2), "err": 0}
        a["timers"] = (rng.choice([None, (rng.randrange(24), rng.randrange(60))]), rng.choice([None, (rng.randrange(24), rng.randrange(60))]))
        if rng.random() < 0.5:
            a["legacy_start"], a["legacy_count"] = rng.randrange(0, 4), rng.randrange(0, 5)
        acs.append(a)
    zones = []
    for z in range(n_zones):
        sensor = rng.randrange(2)
        zones.append({"n": z, "name": names[z][:8] if proto == "at4" else names[z],
                      "status": {"n": z, "power": rng.choice([0, 1, 3]), "method": rng.randrange(2) if sensor else 0, "pct": 5 * rng.randrange(21),
                                 "sp": (18 + rng.randrange(10)) if proto == "at4" else (80 + 5 * rng.randrange(34)), "sensor": sensor,
                                 "temp_raw": (600 + rng.randrange(200)) if sensor else (None if proto == "at4" else 0x7FF),
                                 "turbo": rng.randrange(2), "batt_low": rng.randrange(2), "spill": rng.randrange(2)}})
    return {"proto": proto, "acs": acs, "zones": zones, "version": (rng.random() < 0.3, b"1.3.3|1.3.3" if proto == "at4" else b"1.0.1,1.0.1"),
            "old_format": old_format}


def answers(inst):
    """The six handshake answers (payload frames) of an installation, in request order."""
    p = inst["proto"]
    acs, zones = inst["acs"], inst["zones"]
    ver = C.from_console(p, 0x1F, C.version(*inst["version"]), pid=1)
    if p == "at4":
        names = C.from_console(p, 0x1F, C.at4_group_names([(z["n"], z["name"]) for z in zones]), pid=2)
        # new format: the group bitmap governs; the legacy start/count bytes of such consoles are not
        # reliable (repository comment: "group_count seems to be incorrect for newer console versions")
        ab = C.from_console(p, 0x1F, C.at4_ability([
            dict(a, groups=None) if inst.get("old_format") else
            dict(a, groups=a["zones"], start=a.get("legacy_start", a["start"]), count=a.get("legacy_count", a["count"]))
            for a in acs]), pid=3)
        acst = C.from_console(p, 0x2D, C.at4_ac_status([a["status"] for a in acs]), pid=4)
        tim = [a["timers"] for a in acs] + [(None, None)] * (4 - len(acs))
        timers = C.from_console(p, 0x37, C.at4_timer_status(tim), pid=5)
        zst = C.from_console(p, 0x2B, C.at4_group_status([z["status"] for z in zones]), pid=6)
    else:
        if zones:
            names = C.from_console(p, 0x1F, C.at5_zone_names([(z["n"], z["name"]) for z in zones]), pid=2)
            zst = C.from_console(p, 0xC0, C.at5_zone_status([z["status"] for z in zones]), pid=6)
        else:   # docs/design.md: a console without zones echoes the request, addressed to the client
            names = C.frame(p, 0xB0, 0x90, 2, 0x1F, [0xFF, 0x13])
            zst = C.frame(p, 0xB0, 0x80, 6, 0xC0, [0x21, 0, 0, 0, 0, 0, 0, 0])
        ab = C.from_console(p, 0x1F, C.at5_ability(acs), pid=3)
        acst = C.from_console(p, 0xC0, C.at5_ac_status([a["status"] for a in acs]), pid=4)
        timers = C.from_console(p, 0xC0, C.at5_timer_status([(a["n"], a["timers"][0], a["timers"][1]) for a in acs]), pid=5)
    return [ver, names, ab, acst, timers, zst]


class ClientBuilder:
    def __init__(self, proto, rng):
        self.proto = proto
        self.rng = rng
        self.script = []
        self.nid = 1

    def op(self, **kw):
        # the way a link dies / an attempt fails: every OSError family a TCP stack reports
        if kw.get("op") in ("peer_reset", "arm_fault"):
            kw.setdefault("exc", self._xrng().choice(["reset", "reset", "timeout", "unreach", "netdown", "pipe"]))
        elif kw.get("op") in ("resolve", "resolve_all") and kw.get("how") == "refuse":
            kw.setdefault("exc", self._xrng().choice(["refused", "refused", "timeout", "unreach"]))
        self.script.append(kw)

    def _xrng(self):
        if not hasattr(self, "_xr"):
            import random as _r
            self._xr = _r.Random(len(self.script) * 7919 + self.nid)
        return self._xr

    def call(self, target, method, args=None, kwargs=None):
        cid = self.nid
        self.nid += 1
        d = {"op": "call", "id": cid, "target": target, "method": method}
        if args:
            d["args"] = args
        if kwargs:
            d["kwargs"] = kwargs
        self.script.append(d)
        return cid

    def preamble(self):
        self.op(op="sub", who="m", kind="message", target="socket")
        self.op(op="sub", who="c", kind="connection", target="socket")

    def init(self, inst, snapshot=True):
        self.call("airtouch", "init")
        self.op(op="quiesce")
        self.op(op="resolve", how="ok")
        self.op(op="quiesce")
        replies = {str(a["n"]): C.from_console(self.proto, 0x1F, C.error_info(a["n"], b"ER %d" % a["status"].get("err", 0)), pid=77)
                   for a in inst["acs"] if a["status"].get("err", 0)}
        for f in answers(inst):
            self.op(op="feed", b=f)
            self.op(op="quiesce")
            if replies:      # the console answers the error-information requests it is sent, whenever they come
                self.op(op="answer_errinfo", replies=replies)
                self.op(op="quiesce")
        if snapshot:
            self.op(op="snapshot", tag="after_init")

    def shutdown(self, stall_until=None):
        self.call("airtouch", "shutdown")
        self.op(op="quiesce")
        if stall_until is not None:  # the close of a stalled link takes its time: shutdown() is still in progress then
            self.op(op="advance", to=stall_until)
            self.op(op="quiesce")
        self.op(op="resume")         # a close waiting for a stalled buffer to drain may complete now
        self.op(op="quiesce")
        self.op(op="resolve_all", how="ok")
        self.op(op="quiesce")
        self.op(op="advance", by=10000)
        self.op(op="residual")


# ---------------------------------------------------------------------------------------------
# extra frames a console may interleave during the handshake

def extra_frames(inst, rng):
    p = inst["proto"]
    acs, zones = inst["acs"], inst["zones"]
    ans = answers(inst)
    out = []
    # unsolicited status, duplicates of the answers, unknown types, foreign-addressed frames
    if p == "at4":
        out.append(("unsolicited_ac", C.from_console(p, 0x2D, C.at4_ac_status([dict(acs[0]["status"], sp=20)]))))
        if zones:
            out.append(("unsolicited_zone", C.from_console(p, 0x2B, C.at4_group_status([dict(zones[0]["status"], pct=35)]))))
        out.append(("unknown_type", C.frame(p, 0xB0, 0x80, 9, 0x40, [1, 2, 3])))
        out.append(("unknown_ext", C.frame(p, 0xB0, 0x90, 9, 0x1F, [0xFF, 0x55, 1, 2])))
        out.append(("foreign", C.frame(p, 0xB5, 0x80, 9, 0x2C, [0x81, 0xFF, 0x3F, 0])))
    else:
        out.append(("unsolicited_ac", C.from_console(p, 0xC0, C.at5_ac_status([dict(acs[0]["status"], sp=110)]))))
        if zones:
            out.append(("unsolicited_zone", C.from_console(p, 0xC0, C.at5_zone_status([dict(zones[0]["status"], pct=35)]))))
        out.append(("unknown_type", C.frame(p, 0xB0, 0x80, 9, 0x41, [1, 2, 3])))
        out.append(("unknown_ext", C.frame(p, 0xB0, 0x90, 9, 0x1F, [0xFF, 0x55, 1, 2])))
        out.append(("unknown_sub", C.frame(p, 0xB0, 0x80, 9, 0xC0, [0x77, 0, 0, 2, 0, 0, 0, 0, 9, 9])))
        # unknown sub-types with every shape of sub-header (normal data, repeat length, repeat count)
        for nl, rl, cnt in ((0, 0, 0), (0, 3, 2), (2, 3, 2), (1, 5, 1), (0, 1, 0), (3, 2, 4)):
            body = [rng.randrange(256) for _ in range(nl + rl * cnt)]
            out.append((f"unknown_sub_{nl}_{rl}_{cnt}",
                        C.frame(p, 0xB0, 0x80, rng.randrange(256), 0xC0, [rng.choice([0x77, 0x24, 0x30, 0xFE]), 0, nl >> 8, nl & 255, rl >> 8, rl & 255, cnt >> 8, cnt & 255] + body)))
        out.append(("foreign", C.frame(p, 0xB7, 0x80, 9, 0xC0, [0x22, 0, 0, 0, 0, 4, 0, 1, 0x21, 0xFF, 0, 0xFF])))
    # another client's requests, relayed by the console: addressed elsewhere (to # 0xB0) whatever
    # the sender; only request forms that cannot be read as an (empty) answer
    reqs = [("ver", 0x1F, [0xFF, 0x30]), ("abil", 0x1F, [0xFF, 0x11]), ("abil1", 0x1F, [0xFF, 0x11, 0])]
    if p == "at4":
        reqs += [("names", 0x1F, [0xFF, 0x12]), ("names1", 0x1F, [0xFF, 0x12, 1])]
    else:
        reqs += [("names", 0x1F, [0xFF, 0x13]), ("names1", 0x1F, [0xFF, 0x13, 1]),
                 ("zst", 0xC0, [0x21, 0, 0, 0, 0, 0, 0, 0]), ("acst", 0xC0, [0x23, 0, 0, 0, 0, 0, 0, 0])]
    for name, typ, pl in reqs:
        to = rng.choice([0xB1, 0xB5, 0xB7, 0x80])
        frm = rng.choice([0x90 if typ == 0x1F else 0x80, 0xB0, 0xB3])
        out.append((f"foreign_req_{name}", C.frame(p, to, frm, rng.randrange(256), typ, pl)))
    for k in range(6):
        out.append((f"dup{k}", ans[k]))
    return out


def c09_script(seed, proto, mode="random"):
    """One initialisation scenario.  Extras are only inserted where they cannot be taken for the
    next answer by a client that follows the statement (an extra of the kind that answers the
    outstanding request IS an answer: the statement does not ask the client to tell them apart)."""
    rng = random.Random(seed)
    zero = proto == "at5" and rng.random() < 0.15
    n_acs = rng.randrange(1, 5)
    old = proto == "at4" and rng.random() < 0.3
    inst = installation(proto, rng, n_acs=(1 if (old and rng.random() < 0.5) else n_acs),
                        n_zones=(0 if zero else rng.randrange(1, 17)), old_format=old)
    if inst["zones"] and rng.random() < 0.25:      # unnamed zones: the last one, the first one, all of them
        for z in rng.choice([inst["zones"][-1:], inst["zones"][:1], inst["zones"]]):
            z["name"] = b""
    ans = answers(inst)
    extras = extra_frames(inst, rng)
    b = ClientBuilder(proto, rng)
    b.op(op="mark", tag="strict")
    b.preamble()
    b.call("airtouch", "init")
    b.op(op="quiesce")
    delay = rng.choice([0, 0, 0, 125, 4875, 5125])
    if delay:
        b.op(op="advance", by=delay)
    b.op(op="resolve", how="ok")
    b.op(op="quiesce")
    silent_at = rng.choice([None, None, None, 1, 2, 3, 4, 5, 6])
    kinds = ["version", "names", "ability", "acstatus", "timer", "zonestatus"]
    for k in range(6):
        if silent_at == k + 1:
            break
        # extras before answer k: anything that is not an answer to request k (kinds by name)
        for _ in range(rng.choice([0, 0, 1, 2])):
            name, fr = rng.choice(extras)
            is_answer_kind = (name == f"dup{k}") or (name == "unsolicited_ac" and kinds[k] == "acstatus") or \
                             (name == "unsolicited_zone" and kinds[k] == "zonestatus")
            if not is_answer_kind:
                b.op(op="feed", b=fr, tag=name)
                if rng.random() < 0.5:
                    b.op(op="step", k=rng.randrange(1, 3))
        f = ans[k]
        cuts = sorted(rng.sample(range(1, len(f)), min(len(f) - 1, rng.choice([0, 0, 1, 2, 3]))))
        prev = 0
        for c in cuts + [len(f)]:
            b.op(op="feed", b=f[prev:c], tag=f"answer{k}")
            if rng.random() < 0.5:
                b.op(op="step", k=rng.randrange(1, 3))
            prev = c
        b.op(op="quiesce")
    b.op(op="quiesce")
    b.op(op="snapshot", tag="after_answers")
    if delay < 5000:
        b.op(op="advance", to=5000)
    b.op(op="quiesce")
    b.op(op="advance", by=125)
    b.op(op="snapshot", tag="after_5s")
    b.shutdown()
    return b.script, {"proto": proto, "seed": seed, "silent_at": silent_at, "delay": delay, "zero_zones": zero,
                      "old_format": old, "acs": len(inst["acs"]), "zones": len(inst["zones"])}


def version_frame(proto, update=False, text=None, pid=20):
    text = text or (b"1.3.3|1.3.3" if proto == "at4" else b"1.0.1,1.0.1")
    return C.from_console(proto, 0x1F, C.version(update, text), pid=pid)


def c08_script(seed, proto):
    """Answer patterns over consecutive heartbeats: prompt / late by d / never; silence from the
    first beat, after a response, after a previous timeout reset."""
    rng = random.Random(seed)
    na, nz = rng.randrange(1, 3), rng.randrange(1, 4)
    if proto == "at5" and seed % 7 == 0:
        nz = 0        # a console without zones finishes the handshake on its own path (echoed requests): monitored all the same
    inst = installation(proto, rng, n_acs=na, n_zones=nz)
    inst["version"] = (False, inst["version"][1])
    b = ClientBuilder(proto, rng)
    b.preamble()
    base = 0
    session = 1
    if rng.random() < 0.3:
        # an earlier monitoring session on the same object: init, zero or more answered beats, shutdown;
        # the second session is judged exactly like a first one, counted from its own start
        b.init(inst, snapshot=False)
        b.op(op="auto", how="ok")
        n0 = rng.randrange(0, 3)
        for j in range(n0):
            b.op(op="advance", to=300000 * j + 125)
            b.op(op="feed", b=version_frame(proto, pid=rng.randrange(256)), tag="hb_response")
            b.op(op="quiesce")
        if rng.random() < 0.4:
            # the console stops reading shortly before the shutdown, so closing the link takes a while - and
            # the moment of the next beat passes while shutdown() is still in progress.  The second session
            # is owed its beats and its watchdog all the same.
            tick = 300000 * max(1, n0)
            b.op(op="advance", to=tick - 1000)
            b.op(op="pause")
            b.op(op="advance", to=tick - 500)
            b.op(op="auto", how="")
            b.shutdown(stall_until=tick + rng.choice([500, 5000]))
            base = b.script[-8]["to"] + 10000
            assert b.script[-8]["op"] == "advance"
        else:
            base = 300000 * max(0, n0 - 1) + rng.choice([1000, 150000, 250000])
            b.op(op="advance", to=base)
            b.op(op="auto", how="")
            b.shutdown()
            base += 10000
        session = 2
    b.init(inst, snapshot=False)
    b.op(op="auto", how="ok")
    if rng.random() < 0.2:
        # the link goes half-open after an answered heartbeat: writes no longer complete (drain blocks),
        # nothing is answered; the watchdog must still reset the link at its deadline
        k = rng.randrange(0, 3)
        for j in range(k + 1):
            b.op(op="advance", to=base + 300000 * j + 125)
            b.op(op="feed", b=version_frame(proto, pid=rng.randrange(256)), tag="hb_response")
            b.op(op="quiesce")
        b.op(op="advance", to=base + 300000 * k + rng.choice([1000, 150000, 299000]))
        b.op(op="pause")
        b.op(op="advance", to=base + 300000 * (k + 4))
        b.op(op="quiesce")
        b.shutdown()
        return b.script, {"proto": proto, "seed": seed, "pattern": "blocked_writes", "after_beat": k, "session": session}
    if rng.random() < 0.2:
        # the console becomes unreachable (attempts refused) across one or two watchdog deadlines, comes
        # back, answers some beats, then falls silent on a live link: the watchdog must still be there
        k = rng.randrange(0, 3)
        for j in range(k + 1):
            b.op(op="advance", to=base + 300000 * j + 125)
            b.op(op="feed", b=version_frame(proto, pid=rng.randrange(256)), tag="hb_response")
            b.op(op="quiesce")
        t = base + 300000 * k + rng.choice([1000, 150000])
        b.op(op="advance", to=t)
        b.op(op="auto", how="refuse")
        b.op(op="peer_reset")
        b.op(op="quiesce")
        t = base + 300000 * k + 125 + 330000 * rng.randrange(1, 3) + rng.choice([20000, 100000])
        b.op(op="advance", to=t)
        b.op(op="auto", how="ok")
        b.op(op="advance", by=2125)
        b.op(op="quiesce")
        acf, zf = status_frames(inst)
        b.op(op="feed", b=acf, tag="refresh_ac")
        b.op(op="feed", b=zf, tag="refresh_zone")
        b.op(op="quiesce")
        # beats keep their own rhythm (base + n * 300 s): answer the next two, then silence
        nb = (t + 2125 - base) // 300000 + 1
        for j in range(nb, nb + 2):
            b.op(op="advance", to=base + 300000 * j + 125)
            b.op(op="feed", b=version_frame(proto, pid=rng.randrange(256)), tag="hb_response")
            b.op(op="quiesce")
        b.op(op="advance", to=base + 300000 * (nb + 1) + 125 + 330000 + rng.choice([125, 400000]))
        b.op(op="quiesce")
        b.shutdown()
        return b.script, {"proto": proto, "seed": seed, "pattern": "outage_across_deadline", "session": session}
    lat = [125, 10000, 29875, 30250, 60000, None]
    n_beats = rng.randrange(3, 6)
    pattern = [rng.choice(lat) for _ in range(n_beats)]
    if rng.random() < 0.25:
        pattern = [None] * n_beats          # silent from the first heartbeat
    times = sorted(base + 300000 * k + d for k, d in enumerate(pattern) if d is not None)
    for t in times:
        b.op(op="advance", to=t)
        b.op(op="feed", b=version_frame(proto, pid=rng.randrange(256)), tag="hb_response")
        b.op(op="quiesce")
    b.op(op="advance", to=base + 300000 * n_beats + rng.choice([0, 100000, 400000, 700000]))
    b.op(op="quiesce")
    b.shutdown()
    return b.script, {"proto": proto, "seed": seed, "pattern": pattern, "session": session}


def status_frames(inst):
    """Current AC status / zone status frames of an installation (answers to a refresh)."""
    a = answers(inst)
    return a[3], a[5]


def mutate_state(inst, rng):
    """The console's state changes (while the client may be disconnected)."""
    p = inst["proto"]
    for a in inst["acs"]:
        if rng.random() < 0.6:
            a["status"] = dict(a["status"], power=rng.choice([0, 1]), mode=rng.choice([0, 1, 2, 3, 4, 8, 9]), fan=rng.randrange(7),
                               sp=(18 + rng.randrange(10)) if p == "at4" else 100 + 5 * rng.randrange(30), temp_raw=650 + rng.randrange(150))
    for z in inst["zones"]:
        if rng.random() < 0.6:
            st = z["status"]
            z["status"] = dict(st, power=rng.choice([0, 1, 3]), pct=5 * rng.randrange(21),
                               sp=(18 + rng.randrange(10)) if p == "at4" else (80 + 5 * rng.randrange(34)),
                               temp_raw=(600 + rng.randrange(200)) if st["sensor"] else st["temp_raw"])


def add_subscribers(b, inst, rng, raising=False, dynamic=False):
    subs = []
    if dynamic:
        # further subscribers on the same entities that change the subscriptions from inside their
        # callback: a one-shot subscriber removing itself, a subscriber registering another one
        for a in inst["acs"]:
            if rng.random() < 0.6:
                b.op(op="sub", who=f"D{a['n']}", kind=rng.choice(["ac", "ac_state"]), target=f"ac:{a['n']}",
                     **{rng.choice(["once", "adds"]): True})
        for z in inst["zones"]:
            if rng.random() < 0.5:
                b.op(op="sub", who=f"Y{z['n']}", kind="zone", target=f"zone:{z['n']}", **{rng.choice(["once", "adds"]): True})
    for a in inst["acs"]:
        if rng.random() < 0.35:     # the same callback subscribed to all updates AND to AC state
            w = f"B{a['n']}"
            b.op(op="sub", who=w, kind="ac", target=f"ac:{a['n']}")
            b.op(op="sub", who=w, kind="ac_state", target=f"ac:{a['n']}")
            subs.append(w)
        if rng.random() < 0.7:
            w = f"A{a['n']}"
            b.op(op="sub", who=w, kind="ac", target=f"ac:{a['n']}", raises=raising and rng.random() < 0.3)
            subs.append(w)
        if rng.random() < 0.5:
            w = f"S{a['n']}"
            b.op(op="sub", who=w, kind="ac_state", target=f"ac:{a['n']}", raises=raising and rng.random() < 0.3)
            subs.append(w)
    for z in inst["zones"]:
        if rng.random() < 0.5:
            w = f"Z{z['n']}"
            b.op(op="sub", who=w, kind="zone", target=f"zone:{z['n']}", raises=raising and rng.random() < 0.3)
            subs.append(w)
    if rng.random() < 0.7:
        b.op(op="sub", who="T", kind="airtouch", target="airtouch", raises=raising and rng.random() < 0.3)
        subs.append("T")
    return subs


def c14_script(seed, proto):
    rng = random.Random(seed)
    na, nz = rng.randrange(1, 3), rng.randrange(1, 5)
    if proto == "at5" and seed % 9 == 0:
        nz = 0        # a console without zones (echoed zone requests): refreshed after a reconnection like any other
    inst = installation(proto, rng, n_acs=na, n_zones=nz)
    b = ClientBuilder(proto, rng)
    b.preamble()
    t = 0
    if rng.random() < 0.3:
        # an earlier life of the same object: init, some time, shutdown; the second life is judged
        # like a first one (refresh after reconnection, AT4 poll during silence)
        b.init(inst, snapshot=False)
        t = rng.choice([1000, 100000, 250000])
        b.op(op="advance", to=t)
        b.shutdown()
        t += 10000
    b.init(inst)
    add_subscribers(b, inst, rng)
    base = t
    for _ in range(rng.randrange(1, 4)):
        kind = rng.choice(["loss", "loss", "gap"] if proto == "at4" else ["loss"])
        if kind == "gap":           # AT4: silence of group status: a poll every 300 s for as long as it lasts
            gap = rng.choice([100000, 299875, 300125, 1000000])
            end = t + gap
            # the silence concerns group status only: the console may go on publishing AC status
            # (the unit is running), answering heartbeats, reporting timers
            chatter = rng.random() < 0.6
            while t < end:
                t = min(end, t + rng.choice([30000, 60000, 120000, 150000, 290000]))
                b.op(op="advance", to=t)
                if chatter and t < end:
                    what = rng.choice(["ac", "ac", "ac_same", "version", "timer"])
                    if what == "ac":
                        for a in inst["acs"]:
                            a["status"] = dict(a["status"], temp_raw=650 + rng.randrange(150))
                    if what in ("ac", "ac_same"):
                        b.op(op="feed", b=status_frames(inst)[0], tag="ac_status_in_silence")
                    elif what == "version":
                        b.op(op="feed", b=version_frame(proto), tag="hb_response")
                    else:
                        b.op(op="feed", b=answers(inst)[4], tag="timer_status_in_silence")
                    b.op(op="quiesce")
            b.op(op="feed", b=status_frames(inst)[1], tag="group_status")
            b.op(op="quiesce")
            # keep the watchdog quiet: answer the heartbeats that fell due
            b.op(op="feed", b=version_frame(proto), tag="hb_response")
            b.op(op="quiesce")
            continue
        how = rng.choice(["peer_reset", "peer_eof", "garbage"])
        if how == "garbage":
            b.op(op="feed", b=[0, 1, 2, 3, 4, 5, 6, 7, 8, 9, 10, 11, 12, 13, 14, 15, 16, 17, 18, 19, 20, 21, 22, 23], tag="garbage")
        else:
            b.op(op=how)
        b.op(op="quiesce")
        mutate_state(inst, rng)
        outage = rng.choice([0, 1875, 2125, 60000, 400000])
        if outage:
            b.op(op="auto", how="refuse")
            b.op(op="resolve_all", how="refuse")
            # the application keeps issuing commands while the link is down: they are held (at most ten,
            # for 30 s each).  Whatever is left of them when the link returns - nothing, some, a buffer
            # full of expired ones - the refresh requests still go out.  (Ten LIVE ones are not
            # generated: there C16 - the eleventh message overflows - and C14 meet, see DESIGN 11.3.)
            ncmd = rng.choice([0, 0, 1, 5, 9, 10])
            if outage <= 30000:
                ncmd = min(ncmd, 8)
            for _ in range(ncmd):
                if inst["zones"] and rng.random() < 0.7:
                    z = rng.choice(inst["zones"])
                    b.call(f"zone:{z['n']}", "set_power", [E("ZonePowerState", rng.choice(["ON", "OFF"]))], None)
                else:
                    a = rng.choice(inst["acs"])
                    b.call(f"ac:{a['n']}", "set_power", [E("AcPowerControl", rng.choice(["TURN_ON", "TURN_OFF"]))], None)
            if ncmd:
                b.op(op="quiesce")
            t += outage
            b.op(op="advance", to=t)
        if rng.random() < 0.3:
            # the console accepts the connection but is still restarting: one of the first writes on it
            # (the refresh requests) fails; the client has to try again and refresh on the next connection
            b.op(op="auto", how="")
            b.op(op="quiesce")
            t += 2125
            b.op(op="advance", to=t)
            b.op(op="resolve", how="ok", fault_in=rng.randrange(1, 5))
            b.op(op="quiesce")
            b.op(op="auto", how="ok")
            t += 2625                       # beyond the 2 s retry delay: "the client reconnects"
            b.op(op="advance", to=t)
            b.op(op="quiesce")
        b.op(op="auto", how="ok")
        b.op(op="resolve_all", how="ok")
        t += 2125
        b.op(op="advance", to=t)
        b.op(op="quiesce")
        acf, zf = status_frames(inst)
        b.op(op="feed", b=acf, tag="refresh_ac")
        b.op(op="feed", b=zf, tag="refresh_zone")
        b.op(op="quiesce")
        b.op(op="feed", b=version_frame(proto), tag="hb_response")
        b.op(op="quiesce")
        b.op(op="snapshot", tag="after_refresh")
        if rng.random() < 0.5:      # a refresh that returns unchanged data causes no notification
            b.op(op="feed", b=acf, tag="repeat_ac")
            b.op(op="feed", b=zf, tag="repeat_zone")
            b.op(op="quiesce")
    b.shutdown()
    return b.script, {"proto": proto, "seed": seed}


def c15_script(seed, proto):
    rng = random.Random(seed)
    na, nz = rng.randrange(1, 3), rng.randrange(1, 4)
    if proto == "at5" and seed % 9 == 0:
        nz = 0        # a console without zones: its handshake ends on a path of its own (echoed requests)
    inst = installation(proto, rng, n_acs=na, n_zones=nz)
    b = ClientBuilder(proto, rng)
    b.preamble()
    stage = rng.randrange(0, 15)
    if stage == 14 and not inst["zones"]:
        stage = 13
    if stage == 14:
        return c15_stale_handler(seed, proto, rng, inst)
    b.call("airtouch", "init")
    b.op(op="step", k=rng.randrange(0, 3))
    ans = answers(inst)
    if stage == 1:                                  # refused -> back-off
        b.op(op="quiesce")
        b.op(op="resolve", how="refuse")
        b.op(op="step", k=rng.randrange(0, 3))
        if rng.random() < 0.5:
            b.op(op="advance", by=rng.choice([1875, 2000]))
    elif stage >= 2:
        b.op(op="quiesce")
        b.op(op="resolve", how="ok")
        b.op(op="step", k=rng.randrange(0, 4))
        nfeed = 6 if stage >= 12 else min(stage - 2, 6)
        for k in range(nfeed):
            if k < nfeed - 1:
                b.op(op="quiesce")
            b.op(op="feed", b=ans[k])
        if stage == 9:                              # connected idle
            b.op(op="quiesce")
            b.op(op="advance", by=rng.choice([125, 1000, 299875, 300000]))
        if stage == 10:                             # messages pending during an outage
            b.op(op="quiesce")
            b.op(op="peer_reset")
            b.op(op="step", k=rng.randrange(0, 3))
            b.call("airtouch", "check_for_updates")
            b.op(op="step", k=rng.randrange(0, 3))
        if stage in (12, 13):
            # the console stops reading (send buffer full); a reset of that link - by the watchdog at 330 s
            # or after garbage - has to wait for the close of the stalled transport; shutdown lands there
            b.op(op="quiesce")
            b.op(op="pause")
            if stage == 12:
                b.op(op="advance", by=rng.choice([330000, 331000, 400000]))
            else:
                b.op(op="feed", b=[9, 9, 9, 9, 9, 9, 9, 9, 9, 9, 9, 9, 9, 9, 9, 9, 9, 9, 9, 9])
            b.op(op="step", k=rng.randrange(0, 4))
        if stage == 11:                             # mid-reset
            b.op(op="quiesce")
            b.op(op="feed", b=[9, 9, 9, 9, 9, 9, 9, 9, 9, 9, 9, 9, 9, 9, 9, 9, 9, 9, 9, 9])
            b.op(op="step", k=rng.randrange(0, 3))
    b.op(op="step", k=rng.randrange(0, 7))          # shutdown k loop iterations after the last action
    b.call("airtouch", "shutdown")
    b.op(op="step", k=rng.randrange(0, 7))
    b.op(op="quiesce")
    b.op(op="resume")                               # a close waiting for a stalled buffer completes
    b.op(op="quiesce")
    b.op(op="resolve_all", how=rng.choice(["ok", "refuse"]))
    b.op(op="quiesce")
    b.op(op="advance", by=rng.choice([10000, 1000000]))
    b.op(op="resolve_all", how="ok")
    b.op(op="quiesce")
    b.op(op="snapshot", tag="after_shutdown")
    b.call("airtouch", "check_for_updates")        # sending raises the not-open error
    b.op(op="quiesce")
    b.op(op="residual")
    if rng.random() < 0.5:                          # a later init() works as on a fresh object
        inst2 = installation(proto, rng, n_acs=rng.randrange(1, 3), n_zones=rng.randrange(1, 4))
        b.init(inst2)
        b.shutdown()
    return b.script, {"proto": proto, "seed": seed, "stage": stage}


def c15_stale_handler(seed, proto, rng, inst):
    """shutdown() and a second init() while the handler of the LAST handshake answer of the first life is
    still running (a zone subscriber attached during the handshake takes 8..20 loop turns): the stale
    handler must not complete the first life's initialisation inside the second one."""
    b = ClientBuilder(proto, rng)
    b.preamble()
    ans = answers(inst)
    b.call("airtouch", "init")
    b.op(op="quiesce")
    b.op(op="resolve", how="ok")
    b.op(op="quiesce")
    for k in range(5):
        b.op(op="feed", b=ans[k])
        b.op(op="quiesce")
    z = inst["zones"][0]
    b.op(op="sub", who="Zslow", kind="zone", target=f"zone:{z['n']}", hops=rng.randrange(16, 40))
    b.op(op="feed", b=ans[5])
    b.op(op="step", k=rng.randrange(1, 4))
    b.call("airtouch", "shutdown")
    b.op(op="step", k=rng.randrange(8, 13))    # shutdown() has returned; the slow subscriber has not
    b.call("airtouch", "init")
    b.op(op="quiesce")                 # the slow subscriber returns, the stale handler resumes
    b.op(op="resolve_all", how="ok")
    b.op(op="quiesce")
    for f in ans:
        b.op(op="feed", b=f)
        b.op(op="quiesce")
    b.op(op="snapshot", tag="second_life")
    b.op(op="advance", by=5125)
    b.op(op="quiesce")
    b.shutdown()
    b.op(op="snapshot", tag="after_shutdown")
    return b.script, {"proto": proto, "seed": seed, "stage": 14}


# ---------------------------------------------------------------------------------------------
# C10 / C12: histories of status, timer, error-text and version frames after initialisation

AT4_MODES = [0, 1, 2, 3, 4, 8, 9]
AT5_POWERS = [0, 1, 2, 3, 5]
AT5_FANS = [0, 1, 2, 3, 4, 5, 6, 9, 10, 11, 12, 13, 14]


def ac_record(proto, n, rng, combo=None):
    if proto == "at4":
        power, mode, fan, flags = combo if combo else (rng.randrange(2), rng.choice(AT4_MODES), rng.randrange(7), rng.randrange(4))
        return {"n": n, "power": power, "mode": mode, "fan": fan, "spill": flags & 1, "timer": flags >> 1,
                "sp": 16 + rng.randrange(16), "temp_raw": 600 + rng.randrange(250), "err": rng.choice([0, 0, 0, 1, 0xFFFE])}
    power, mode, fan, flags = combo if combo else (rng.choice(AT5_POWERS), rng.choice(AT4_MODES), rng.choice(AT5_FANS), rng.randrange(16))
    return {"n": n, "power": power, "mode": mode, "fan": fan, "turbo": flags & 1, "bypass": (flags >> 1) & 1, "spill": (flags >> 2) & 1,
            "timer": flags >> 3, "sp": 100 + 5 * rng.randrange(30), "temp_raw": 600 + rng.randrange(250), "err": rng.choice([0, 0, 0, 1, 0xABCD])}


def zone_record(proto, z, rng):
    st = z["status"]
    sensor = st["sensor"] if rng.random() < 0.9 else 1 - st["sensor"]
    if proto == "at4":
        return {"n": z["n"], "power": rng.choice([0, 1, 3]), "method": rng.randrange(2), "pct": 5 * rng.randrange(21), "sp": 16 + rng.randrange(16),
                "sensor": sensor, "temp_raw": (600 + rng.randrange(250)) if rng.random() < 0.8 else None, "turbo": rng.randrange(2),
                "batt_low": rng.randrange(2), "spill": rng.randrange(2)}
    return {"n": z["n"], "power": rng.choice([0, 1, 3]), "method": rng.randrange(2), "pct": 5 * rng.randrange(21),
            "sp": rng.choice([0xFF, 80 + 5 * rng.randrange(34)]), "sensor": sensor,
            "temp_raw": (600 + rng.randrange(250)) if rng.random() < 0.8 else 0x7FF, "batt_low": rng.randrange(2), "spill": rng.randrange(2)}


def history_frame(inst, rng, combos=None):
    """One console frame concerning some entities; returns (tag, frame, asks_error_for)."""
    p = inst["proto"]
    r = rng.random()
    acs, zones = inst["acs"], inst["zones"]
    if r < 0.40:
        sel = [a for a in acs if rng.random() < 0.7] or [rng.choice(acs)]
        recs = []
        for a in sel:
            if rng.random() < 0.25:
                recs.append(a["status"])                                # unchanged repeat
            else:
                a["status"] = ac_record(p, a["n"], rng, combos.pop() if combos else None)
                recs.append(a["status"])
        if rng.random() < 0.15:
            recs.append(ac_record(p, 3 if p == "at4" else 12, rng))      # unknown (or other) entity id
        rng.shuffle(recs)
        pl = C.at4_ac_status(recs) if p == "at4" else C.at5_ac_status(recs, rlen=rng.choice([8, 10]))
        return "ac_status", C.from_console(p, 0x2D if p == "at4" else 0xC0, pl, pid=rng.randrange(256))
    if r < 0.70 and zones:
        sel = [z for z in zones if rng.random() < 0.6] or [rng.choice(zones)]
        recs = []
        for z in sel:
            if rng.random() < 0.25:
                recs.append(z["status"])
            else:
                z["status"] = zone_record(p, z, rng)
                recs.append(z["status"])
        if rng.random() < 0.15:
            recs.append(dict(zone_record(p, zones[0], rng), n=15))
        rng.shuffle(recs)
        pl = C.at4_group_status(recs) if p == "at4" else C.at5_zone_status(recs, rlen=rng.choice([8, 9]))
        return "zone_status", C.from_console(p, 0x2B if p == "at4" else 0xC0, pl, pid=rng.randrange(256))
    if r < 0.82:
        def flip(t):
            """only the disabled bit changes, the time stays (set for 00:00 from a cleared slot; disabled with the time retained)"""
            if t is None:
                return (0, 0)
            if len(t) == 3:
                return (t[0], t[1])
            return (t[0], t[1], "off")
        for a in acs:
            x = rng.random()
            if x < 0.3:
                on, off = a["timers"]
                a["timers"] = (flip(on), off) if rng.random() < 0.5 else (on, flip(off))
            elif x < 0.7:
                a["timers"] = (rng.choice([None, (rng.randrange(24), rng.randrange(60))]), rng.choice([None, (rng.randrange(24), rng.randrange(60))]))
        if p == "at4":
            tim = [a["timers"] for a in acs] + [(None, None)] * (4 - len(acs))
            return "timer_status", C.from_console(p, 0x37, C.at4_timer_status(tim), pid=rng.randrange(256))
        sel = [a for a in acs if rng.random() < 0.8] or [acs[0]]
        return "timer_status", C.from_console(p, 0xC0, C.at5_timer_status([(a["n"], a["timers"][0], a["timers"][1]) for a in sel]), pid=rng.randrange(256))
    if r < 0.92:
        a = rng.choice(acs)
        text = rng.choice([b"ER: FFFE", b"", b"E1", "Störung".encode()])
        return "error_info", C.from_console(p, 0x1F, C.error_info(a["n"], text), pid=rng.randrange(256))
    inst["version"] = (rng.random() < 0.5, rng.choice([b"1.3.3", b"1.3.4|1.3.3", b"2.0"]) if p == "at4" else rng.choice([b"1.0.1", b"1.0.2,1.0.1"]))
    return "version", C.from_console(p, 0x1F, C.version(*inst["version"]), pid=rng.randrange(256))


def stalled_report(b, inst, rng):
    """The console stops reading (send buffer full) and then reports a changed AC status, with or
    without an error code, optionally while ten accepted commands are already waiting on the stalled
    link.  One frame only: a client waiting on its own write cannot be expected to consume more.  The
    object model must show that report during the stall and after it."""
    p = inst["proto"]
    b.op(op="quiesce")
    b.op(op="pause")
    if rng.random() < 0.5 and inst["zones"]:
        for _ in range(10):
            z = rng.choice(inst["zones"])
            b.call(f"zone:{z['n']}", "set_power", [E("ZonePowerState", rng.choice(["ON", "OFF"]))])
        b.op(op="step", k=2)
    a = rng.choice(inst["acs"])
    a["status"] = dict(ac_record(p, a["n"], rng), err=rng.choice([0, 1, 0xFFFE, 0x1234]))
    pl = C.at4_ac_status([a["status"]]) if p == "at4" else C.at5_ac_status([a["status"]])
    b.op(op="feed", b=C.from_console(p, 0x2D if p == "at4" else 0xC0, pl, pid=rng.randrange(256)), tag="ac_status_while_stalled")
    b.op(op="quiesce")
    b.op(op="snapshot", tag="during_stall")
    b.op(op="resume")
    b.op(op="quiesce")
    b.op(op="snapshot", tag="after_stall")


def c10_script(seed, proto, combos=None, subscribers=False, raising=False):
    rng = random.Random(seed)
    na, nz = rng.randrange(1, 4), rng.randrange(1, 7)
    if proto == "at5" and seed % 9 == 0 and not subscribers:
        nz = 0        # a console without zones (echoed zone requests)
    inst = installation(proto, rng, n_acs=na, n_zones=nz)
    if rng.random() < 0.3:      # units already in an error state when the client initialises
        for a in inst["acs"]:
            if rng.random() < 0.6:
                a["status"] = dict(a["status"], err=rng.choice([1, 5, 0xFFFE]))
    b = ClientBuilder(proto, rng)
    b.op(op="mark", tag="strict")
    b.preamble()
    b.init(inst)
    dynamic = subscribers and rng.random() < 0.4
    subs = add_subscribers(b, inst, rng, raising=raising, dynamic=dynamic) if subscribers else []
    n = rng.randrange(10, 40) if not combos else len(combos) + 5
    for _ in range(n):
        if combos is not None and not combos:
            break
        if not subscribers and combos is None and rng.random() < 0.06:
            stalled_report(b, inst, rng)
            continue
        if not subscribers and combos is None and rng.random() < 0.04:
            # a second life of the same object, the console reporting exactly what it reported last:
            # the model is rebuilt from scratch all the same
            b.shutdown()
            b.init(inst)
            continue
        if subscribers and combos is None and not raising and rng.random() < 0.05:
            # the link stalls, a changed AC report with an error code arrives (the client has to write a
            # request before it can tell anybody), a subscriber leaves and another joins meanwhile
            a = rng.choice(inst["acs"])
            b.op(op="sub", who=f"L{a['n']}", kind=rng.choice(["ac", "ac_state"]), target=f"ac:{a['n']}")
            b.op(op="quiesce")
            b.op(op="pause")
            a["status"] = dict(ac_record(proto, a["n"], rng), err=rng.choice([1, 5, 0xFFFE]))
            pl = C.at4_ac_status([a["status"]]) if proto == "at4" else C.at5_ac_status([a["status"]])
            b.op(op="feed", b=C.from_console(proto, 0x2D if proto == "at4" else 0xC0, pl, pid=rng.randrange(256)), tag="ac_status_while_stalled")
            b.op(op="quiesce")
            b.op(op="unsub", who=f"L{a['n']}", kind="ac", target=f"ac:{a['n']}")
            b.op(op="unsub", who=f"L{a['n']}", kind="ac_state", target=f"ac:{a['n']}")
            b.op(op="sub", who=f"J{a['n']}", kind="ac", target=f"ac:{a['n']}")
            b.op(op="resume")
            b.op(op="quiesce")
            b.op(op="snapshot", tag="after_stall")
            b.op(op="unsub", who=f"J{a['n']}", kind="ac", target=f"ac:{a['n']}")
            continue
        if subscribers and combos is None and rng.random() < 0.04:
            # a second life of the same object: the AC and zone objects (and their subscribers) are rebuilt,
            # a subscriber of the AirTouch itself stays subscribed
            b.shutdown()
            b.init(inst)
            subs = add_subscribers(b, inst, rng, raising=raising)
            continue
        tag, fr = history_frame(inst, rng, combos)
        if rng.random() < 0.2:
            cut = rng.randrange(1, len(fr))
            b.op(op="feed", b=fr[:cut], tag=tag)
            b.op(op="step", k=1)
            b.op(op="feed", b=fr[cut:], tag=tag)
        else:
            b.op(op="feed", b=fr, tag=tag)
        b.op(op="quiesce")
        b.op(op="snapshot", tag=tag)
        if subscribers and rng.random() < 0.25:
            # subscribe / unsubscribe / double-subscribe anywhere in the history
            kind, tgt, who = rng.choice([("ac", f"ac:{a['n']}", f"A{a['n']}") for a in inst["acs"]] +
                                        [("ac_state", f"ac:{a['n']}", f"S{a['n']}") for a in inst["acs"]] +
                                        [(k, f"ac:{a['n']}", f"B{a['n']}") for a in inst["acs"] for k in ("ac", "ac_state")] +
                                        [("zone", f"zone:{z['n']}", f"Z{z['n']}") for z in inst["zones"]] +
                                        [("airtouch", "airtouch", "T")])
            if rng.random() < 0.5:
                b.op(op="sub", who=who, kind=kind, target=tgt)
            else:
                b.op(op="unsub", who=who, kind=kind, target=tgt)
    b.shutdown()
    return b.script, {"proto": proto, "seed": seed, "subscribers": subscribers, "raising": raising, "dynamic": dynamic}


# ---------------------------------------------------------------------------------------------
# C04 / C11: public control calls

def E(enum, name):
    return {"enum": enum, "name": name}


AC_POWER = ["TOGGLE", "TURN_OFF", "TURN_ON", "SET_TO_AWAY", "SET_TO_SLEEP"]
AC_MODES = ["AUTO", "HEAT", "DRY", "FAN", "COOL"]
AC_FANS = ["AUTO", "QUIET", "LOW", "MEDIUM", "HIGH", "POWERFUL", "TURBO", "INTELLIGENT_AUTO"]
ZONE_POWER = ["OFF", "ON", "TURBO"]


def command_calls(inst, rng, n):
    """n public control calls (target, method, args, kwargs) over the whole argument domains."""
    calls = []
    acs, zones = inst["acs"], inst["zones"]
    for _ in range(n):
        r = rng.random()
        a = rng.choice(acs)
        tgt = f"ac:{a['n']}"
        if r < 0.10:
            calls.append((tgt, "set_power", [E("AcPowerControl", rng.choice(AC_POWER))], None))
        elif r < 0.22:
            kw = {"power_on": True} if rng.random() < 0.3 else None
            calls.append((tgt, "set_mode", [E("AcMode", rng.choice(AC_MODES))], kw))
        elif r < 0.34:
            calls.append((tgt, "set_fan_speed", [E("AcFanSpeed", rng.choice(AC_FANS))], None))
        elif r < 0.52:
            # 0.05 degC grid from min-3 to max+3 (twentieths), incl. ties
            calls.append((tgt, "set_target_temperature", [{"twentieths": rng.randrange(12 * 20, 36 * 20)}], None))
        elif r < 0.60:
            tt = E("AcTimerType", rng.choice(["ON_TIMER", "OFF_TIMER"]))
            if rng.random() < 0.5:
                calls.append((tgt, "set_quick_timer", [tt, {"time": [rng.randrange(24), rng.randrange(60)]}], None))
            else:
                calls.append((tgt, "set_quick_timer", [tt, {"seconds": rng.choice([0, 59, 60, 3599, 3600, 5400, 86399, 90000, rng.randrange(0, 200000)])}], None))
        elif r < 0.65:
            calls.append((tgt, "clear_quick_timer", [E("AcTimerType", rng.choice(["ON_TIMER", "OFF_TIMER"]))], None))
        elif r < 0.68:
            calls.append(("airtouch", "check_for_updates", [], None))
        elif zones:
            z = rng.choice(zones)
            zt = f"zone:{z['n']}"
            r2 = rng.random()
            if r2 < 0.3:
                calls.append((zt, "set_power", [E("ZonePowerState", rng.choice(ZONE_POWER))], None))
            elif r2 < 0.65:
                calls.append((zt, "set_target_temperature", [{"twentieths": rng.randrange(10 * 20, 36 * 20)}], None))
            else:
                calls.append((zt, "set_damper_percentage", [rng.randrange(-5, 106)], None))
    return calls


def c11_script(seed, proto, bitmap=None):
    rng = random.Random(seed)
    inst = installation(proto, rng, n_acs=rng.randrange(1, 3), n_zones=rng.randrange(1, 5))
    for a in inst["acs"]:
        modes, fans = bitmap if bitmap else (rng.randrange(32), rng.randrange(128 if proto == "at4" else 256))
        a["modes"], a["fans"] = modes, fans
    b = ClientBuilder(proto, rng)
    b.op(op="mark", tag="strict")
    b.preamble()
    b.init(inst)
    if rng.random() < 0.5:           # the units report any of their power states (AT5: away / sleep variants) before the calls
        for a in inst["acs"]:
            a["status"] = dict(ac_record(proto, a["n"], rng), err=0)
        b.op(op="feed", b=status_frames(inst)[0], tag="ac_status")
        b.op(op="quiesce")
    for tgt, meth, args, kw in command_calls(inst, rng, rng.randrange(25, 45)):
        b.call(tgt, meth, args, kw)
        b.op(op="quiesce")
        if rng.random() < 0.15:      # the console reports new state (mode -> limits, timers, sensor)
            tag, fr = history_frame(inst, rng)
            b.op(op="feed", b=fr, tag=tag)
            b.op(op="quiesce")
    b.shutdown()
    return b.script, {"proto": proto, "seed": seed, "bitmap": bitmap}


# ---------------------------------------------------------------------------------------------
# C19: the same abstract installation and history on both generations

def _to_at5(inst4):
    """The AT5 rendering of an installation described in terms both generations can express."""
    import copy
    i5 = copy.deepcopy(inst4)
    i5["proto"] = "at5"
    for a in i5["acs"]:
        a["min_cool"] = a["min_heat"] = a["min"]
        a["max_cool"] = a["max_heat"] = a["max"]
        st = a["status"]
        st["sp"] = st["sp"] * 10 - 100
    for z in i5["zones"]:
        st = z["status"]
        st["sp"] = (st["sp"] * 10 - 100) if st["sensor"] else 0xFF
        st["temp_raw"] = st["temp_raw"] if (st["sensor"] and st["temp_raw"] is not None) else 0x7FF
    v = i5["version"]
    i5["version"] = (v[0], v[1].replace(b"|", b","))
    return i5


def _common_installation(rng):
    # small installations mostly; the largest both generations can describe (16 zones, up to 4 units) regularly
    big = rng.random() < 0.25
    inst = installation("at4", rng, n_acs=rng.randrange(1, 5) if big else rng.randrange(1, 3),
                        n_zones=rng.choice([15, 16, 16]) if big else rng.randrange(1, 5))
    for a in inst["acs"]:
        a["fans"] &= 0x7F
        a["status"]["sp"] = 18 + rng.randrange(10)
        a["status"]["mode"] = rng.choice(AT4_MODES)
    for z in inst["zones"]:
        st = z["status"]
        st["turbo"] = 1
        st["sp"] = 18 + rng.randrange(10)
        if not st["sensor"]:
            st["temp_raw"] = None
            st["method"] = 0
        elif st["temp_raw"] is None:
            st["temp_raw"] = 700
        z["name"] = z["name"][:8]
    return inst


def c19_pair(seed):
    rng = random.Random(seed)
    inst4 = _common_installation(rng)
    builders = {}
    insts = {"at4": inst4, "at5": _to_at5(inst4)}
    for p in ("at4", "at5"):
        b = ClientBuilder(p, random.Random(seed))
        b.op(op="mark", tag="strict")
        b.preamble()
        b.init(insts[p])
        builders[p] = b
    steps = []
    pending = None

    def ac_step(a, answer):
        """One AC status frame on both generations; the console answers the error-information request at
        once (answer=True) or not yet (the frames it will send later are returned)."""
        f4 = C.from_console("at4", 0x2D, C.at4_ac_status([a["status"]]))
        f5 = C.from_console("at5", 0xC0, C.at5_ac_status([dict(a["status"], sp=a["status"]["sp"] * 10 - 100)]))
        pid = rng.randrange(256)
        later = {}
        for p, f in (("at4", f4), ("at5", f5)):
            builders[p].op(op="feed", b=f, tag="status")
            builders[p].op(op="quiesce")
            builders[p].op(op="snapshot", tag="pair")        # what the application sees before the answer
            replies = {str(x["n"]): C.from_console(p, 0x1F, C.error_info(x["n"], b"ER %d" % x["status"].get("err", 0)), pid=pid)
                       for x in inst4["acs"] if x["status"].get("err", 0)}
            if answer:
                builders[p].op(op="answer_errinfo", replies=replies)
                builders[p].op(op="quiesce")
                builders[p].op(op="snapshot", tag="pair")
            later[p] = [replies[k] for k in sorted(replies)]
        return later

    def late(frames):
        for p in ("at4", "at5"):
            for f in frames[p]:
                builders[p].op(op="feed", b=f, tag="late_errinfo")
            builders[p].op(op="quiesce")
            builders[p].op(op="snapshot", tag="pair")

    if rng.random() < 0.3:
        # the life of an error whose description arrives late: error A - (cleared before the console
        # answers) - the answer - (an ordinary change) - error B, looked at before B's answer comes
        a = rng.choice(inst4["acs"])
        ea, eb = rng.sample([5, 7, 11, 0xFFFE], 2)
        a["status"] = dict(a["status"], err=ea)
        fr = ac_step(a, answer=False)
        if rng.random() < 0.7:
            a["status"] = dict(a["status"], err=0)
            ac_step(a, answer=True)
        late(fr)
        if rng.random() < 0.7:
            a["status"] = dict(a["status"], err=0, temp_raw=600 + rng.randrange(250))
            ac_step(a, answer=True)
        a["status"] = dict(a["status"], err=eb)
        fr = ac_step(a, answer=False)
        if rng.random() < 0.5:
            late(fr)
        steps.append("error_story")
    for _ in range(rng.randrange(8, 20)):
        if pending is not None and rng.random() < 0.6:
            # the slow console answers now what it was asked a while ago - whatever the unit reports by now
            for p in ("at4", "at5"):
                for f in pending[p]:
                    builders[p].op(op="feed", b=f, tag="late_errinfo")
                builders[p].op(op="quiesce")
                builders[p].op(op="snapshot", tag="pair")
            pending = None
            steps.append("late_errinfo")
        if rng.random() < 0.45:
            # a status change expressible in both generations
            a = rng.choice(inst4["acs"])
            if rng.random() < 0.5 or not inst4["zones"]:
                a["status"] = dict(a["status"], power=rng.randrange(2), mode=rng.choice(AT4_MODES), fan=rng.randrange(7),
                                   sp=18 + rng.randrange(10), temp_raw=600 + rng.randrange(250), spill=rng.randrange(2), timer=rng.randrange(2),
                                   err=rng.choice([0, 0, 0, 5, 7, 0xFFFE]))
                f4 = C.from_console("at4", 0x2D, C.at4_ac_status([a["status"]]))
                st5 = dict(a["status"], sp=a["status"]["sp"] * 10 - 100)
                f5 = C.from_console("at5", 0xC0, C.at5_ac_status([st5]))
            else:
                z = rng.choice(inst4["zones"])
                st = z["status"]
                st = dict(st, power=rng.choice([0, 1, 3]), pct=5 * rng.randrange(21), sp=18 + rng.randrange(10),
                          temp_raw=(600 + rng.randrange(250)) if st["sensor"] else None, batt_low=rng.randrange(2), spill=rng.randrange(2))
                z["status"] = st
                f4 = C.from_console("at4", 0x2B, C.at4_group_status([st]))
                st5 = dict(st, sp=(st["sp"] * 10 - 100) if st["sensor"] else 0xFF, temp_raw=st["temp_raw"] if st["sensor"] else 0x7FF)
                f5 = C.from_console("at5", 0xC0, C.at5_zone_status([st5]))
            slow = pending is None and rng.random() < 0.3 and any(x["status"].get("err", 0) for x in inst4["acs"])
            pid = rng.randrange(256)
            if slow:
                pending = {}
            for p, f in (("at4", f4), ("at5", f5)):
                builders[p].op(op="feed", b=f, tag="status")
                builders[p].op(op="quiesce")
                # the console answers whatever error-information requests the client issued, with the
                # text of the code each AC currently reports - at once, or (a slow console) some steps later
                replies = {str(x["n"]): C.from_console(p, 0x1F, C.error_info(x["n"], b"ER %d" % x["status"].get("err", 0)), pid=pid)
                           for x in inst4["acs"] if x["status"].get("err", 0)}
                if slow:
                    pending[p] = [replies[k] for k in sorted(replies)]
                else:
                    builders[p].op(op="answer_errinfo", replies=replies)
                    builders[p].op(op="quiesce")
                builders[p].op(op="snapshot", tag="pair")
            steps.append("status")
        else:
            r = rng.random()
            a = rng.choice(inst4["acs"])
            tgt = f"ac:{a['n']}"
            if r < 0.15:
                call = (tgt, "set_power", [E("AcPowerControl", rng.choice(["TOGGLE", "TURN_OFF", "TURN_ON"]))], None)
            elif r < 0.35:
                call = (tgt, "set_mode", [E("AcMode", rng.choice(AC_MODES))], {"power_on": True} if rng.random() < 0.3 else None)
            elif r < 0.5:
                call = (tgt, "set_fan_speed", [E("AcFanSpeed", rng.choice(AC_FANS[:7]))], None)
            elif r < 0.65:
                # any value, or exactly the set-point the unit last reported (a request is a request)
                t20 = 20 * a["status"]["sp"] if rng.random() < 0.3 else 20 * rng.randrange(12, 36)
                call = (tgt, "set_target_temperature", [{"twentieths": t20}], None)
            elif r < 0.72:
                call = (tgt, "set_quick_timer", [E("AcTimerType", rng.choice(["ON_TIMER", "OFF_TIMER"])), {"time": [rng.randrange(24), rng.randrange(60)]}], None)
            elif r < 0.76:
                call = (tgt, "clear_quick_timer", [E("AcTimerType", rng.choice(["ON_TIMER", "OFF_TIMER"]))], None)
            elif inst4["zones"]:
                z = rng.choice(inst4["zones"])
                zt = f"zone:{z['n']}"
                r2 = rng.random()
                if r2 < 0.3:
                    call = (zt, "set_power", [E("ZonePowerState", rng.choice(ZONE_POWER))], None)
                elif r2 < 0.65:
                    t20 = 20 * z["status"]["sp"] if rng.random() < 0.4 else 20 * rng.randrange(14, 32)
                    call = (zt, "set_target_temperature", [{"twentieths": t20}], None)
                else:
                    pct = z["status"]["pct"] if rng.random() < 0.3 else rng.randrange(-5, 106)
                    call = (zt, "set_damper_percentage", [pct], None)
            else:
                call = ("airtouch", "check_for_updates", [], None)
            for p in ("at4", "at5"):
                builders[p].call(*call)
                builders[p].op(op="quiesce")
            steps.append("call")
    for p in ("at4", "at5"):
        builders[p].shutdown()
    return builders["at4"].script, builders["at5"].script, {"seed": seed, "steps": steps}


# ---------------------------------------------------------------------------------------------
# C02 at the API level: which retry policy each public command really gets

def c02_api_script(seed, proto):
    """A write failure cuts off the frame of a public command (at its 1st, 2nd or 3rd write); the link
    comes back.  The accumulating command (power toggle) must not be written again, any other command
    must be (C02); a second failure may hit the re-send as well."""
    rng = random.Random(seed)
    inst = installation(proto, rng, n_acs=rng.randrange(1, 3), n_zones=rng.randrange(1, 4))
    b = ClientBuilder(proto, rng)
    b.preamble()
    b.init(inst)
    b.op(op="auto", how="ok")
    for _ in range(rng.randrange(1, 4)):
        a = rng.choice(inst["acs"])
        tgt = f"ac:{a['n']}"
        r = rng.random()
        if r < 0.4:
            call = (tgt, "set_power", [E("AcPowerControl", "TOGGLE")], None)
        elif r < 0.55:
            call = (tgt, "set_power", [E("AcPowerControl", rng.choice(["TURN_ON", "TURN_OFF"]))], None)
        elif r < 0.7:
            call = (tgt, "set_fan_speed", [E("AcFanSpeed", "AUTO")], None)
        elif r < 0.85 and inst["zones"]:
            z = rng.choice(inst["zones"])
            call = (f"zone:{z['n']}", "set_damper_percentage", [5 * rng.randrange(21)], None)
        else:
            call = ("airtouch", "check_for_updates", [], None)
        faults = rng.choice([1, 1, 2])
        b.op(op="arm_fault", nth=rng.randrange(1, 4))
        b.call(*call)
        b.op(op="quiesce")
        for _k in range(faults - 1):
            b.op(op="arm_fault", nth=rng.randrange(1, 4))     # hits the re-send (or the refresh) on the next connection
            b.op(op="quiesce")
        b.op(op="advance", by=rng.choice([125, 2125, 4250]))
        b.op(op="quiesce")
        acf, zf = status_frames(inst)
        b.op(op="feed", b=acf, tag="refresh_ac")
        b.op(op="feed", b=zf, tag="refresh_zone")
        b.op(op="quiesce")
    b.shutdown()
    return b.script, {"proto": proto, "seed": seed}


# ---------------------------------------------------------------------------------------------
# C08 with custom interval / timeout configurations: a bare HeartbeatManager on a real socket

HB_CONFIGS = [(60000, 75000), (20000, 120000), (10000, 10000), (300000, 330000), (5000, 30125)]


def c08_custom_script(seed, proto, interval, timeout):
    """Monitoring with HeartbeatConfig(interval, timeout): answers prompt / late / never per beat, silence from
    the first beat, after a response, after an earlier reset; stop() and a second start()."""
    rng = random.Random(seed)
    b = ClientBuilder(proto, rng)
    b.preamble()
    b.call("socket", "open_socket")
    b.op(op="quiesce")
    b.op(op="resolve", how="ok")
    b.op(op="quiesce")
    b.op(op="auto", how="ok")
    b.call("heartbeat", "start")
    b.op(op="quiesce")
    t = 0
    n_beats = rng.randrange(3, 8)
    lat = [125, interval // 2, max(125, timeout - interval - 125), timeout - interval + 125, None, None]
    pattern = [rng.choice(lat) for _ in range(n_beats)]
    if rng.random() < 0.2:
        pattern = [None] * n_beats
    times = sorted(interval * k + d for k, d in enumerate(pattern) if d is not None and d >= 0)
    for x in times:
        if x <= t:
            continue
        t = x
        b.op(op="advance", to=t)
        b.op(op="feed", b=version_frame(proto, pid=rng.randrange(256)), tag="hb_response")
        b.op(op="quiesce")
    t = max(t, interval * n_beats) + rng.choice([0, timeout, 2 * timeout + 125])
    b.op(op="advance", to=t)
    b.op(op="quiesce")
    if rng.random() < 0.4:      # stop, idle, start again: counted from the new start
        b.call("heartbeat", "stop")
        b.op(op="quiesce")
        t += rng.choice([1000, timeout, 3 * interval])
        b.op(op="advance", to=t)
        b.call("heartbeat", "start")
        b.op(op="quiesce")
        for k in range(rng.randrange(1, 4)):
            if rng.random() < 0.6:
                b.op(op="advance", to=t + interval * k + 125)
                b.op(op="feed", b=version_frame(proto, pid=rng.randrange(256)), tag="hb_response")
                b.op(op="quiesce")
        t += interval * 3 + rng.choice([0, timeout + 125])
        b.op(op="advance", to=t)
        b.op(op="quiesce")
    b.call("heartbeat", "stop")
    b.op(op="quiesce")
    b.op(op="auto", how="")
    b.call("socket", "close")
    b.op(op="quiesce")
    b.op(op="advance", by=10000)
    b.op(op="residual")
    opts = {"interval_ms": interval, "timeout_ms": timeout,
            "hb_message": {"k": "ExtendedMessage", "sub_message": {"k": "ConsoleVersionRequest"}}}
    return b.script, {"proto": proto, "seed": seed, "interval": interval, "timeout": timeout, "opts": opts}
