"""C13: reception is independent of TCP segmentation."""
import itertools
import random

from harness import console as C

from . import gen_socket as G
from . import lib
from . import p_socket as PS


def streams(proto):
    if proto == "at4":
        f1 = C.from_console("at4", 0x2B, C.at4_group_status([
            {"n": 0, "power": 1, "pct": 100}, {"n": 1, "power": 3, "method": 1, "pct": 55, "sp": 26, "sensor": 1, "temp_raw": 780, "turbo": 1}]), pid=9)
        f2 = C.from_console("at4", 0x1F, C.version(False, b"1.3.3|1.3.3"), pid=10)
        f3 = C.from_console("at4", 0x2D, C.at4_ac_status([{"n": 0, "power": 1, "mode": 4, "fan": 2, "sp": 26, "temp_raw": 780},
                                                          {"n": 1, "sp": 26, "temp_raw": 765, "err": 0xFFFE}]), pid=11)
    else:
        f1 = C.from_console("at5", 0xC0, C.at5_zone_status([
            {"n": 0, "power": 1, "method": 1, "sp": 150, "sensor": 1, "temp_raw": 743}, {"n": 1, "pct": 100}]), pid=9)
        f2 = C.from_console("at5", 0x1F, C.at5_zone_names([(0, b"Living"), (1, "Küche".encode())]), pid=10)
        f3 = C.from_console("at5", 0xC0, C.at5_ac_status([{"n": 0, "power": 1, "mode": 1, "fan": 2, "sp": 120, "temp_raw": 730},
                                                          {"n": 1, "mode": 4, "fan": 10, "sp": 100, "temp_raw": 740}]), pid=11)
    return [f1, f2, f3]


def _retype(proto, frame):
    """(type, payload) of a console frame built by C.from_console, to rebuild it with another packet id."""
    body = frame[2:] if proto == "at4" else frame[14:]
    n = (body[4] << 8) | body[5]
    return body[3], body[6:6 + n]


def script_for(proto, frames, cuts, rng):
    stream = [b for f in frames for b in f]
    b = G.Builder(proto, rng)
    b.op(op="mark", tag="strict")
    b.preamble()
    b.op(op="quiesce")
    b.op(op="resolve", how="ok")
    b.op(op="quiesce")
    prev = 0
    # segments arrive back to back, or separated by 0..3 loop iterations, or by time (a segment delayed
    # by a retransmission: 125 ms .. 30 s, including around any round number a timer might use)
    timed = rng.random() < 0.5
    for p in list(cuts) + [len(stream)]:
        b.op(op="feed", b=stream[prev:p])
        k = rng.randrange(0, 4)
        if k:
            b.op(op="step", k=k)
        if timed and p < len(stream) and rng.random() < 0.7:
            b.op(op="advance", by=rng.choice([125, 1000, 2000, 4875, 5000, 5125, 10000, 29875, 30125]))
        prev = p
    b.op(op="quiesce")
    b.call("close")
    b.op(op="quiesce")
    b.op(op="residual")
    return b.script, {"enc": {}, "blockers": [], "proto": proto, "cuts": list(cuts), "frames": len(frames)}


def check(rep):
    q = rep.tier == "quick"
    PS.selftest(rep)
    rng = random.Random(lib.seed())
    scripts = []
    total_space = 0
    for proto in ("at4", "at5"):
        fr = streams(proto)
        for frames, maxcuts in ((fr, 2 if q else 2), (fr[:2], 2 if q else 3), (fr[2:], 3)):
            n = sum(len(f) for f in frames)
            cutsets = [()]
            for k in range(1, maxcuts + 1):
                cutsets += list(itertools.combinations(range(1, n), k))
            total_space += len(cutsets)
            cap = 1500 if q else 10 ** 9
            if len(cutsets) > cap:
                singles = [c for c in cutsets if len(c) <= 1]
                rest = [c for c in cutsets if len(c) > 1]
                cutsets = singles + rng.sample(rest, cap - len(singles))
            cutsets.append(tuple(range(1, n)))                      # one byte at a time
            for _ in range(40 if q else 400):                       # many random cuts
                k = rng.randrange(4, min(20, n - 1))
                cutsets.append(tuple(sorted(rng.sample(range(1, n), k))))
            for cs in cutsets:
                sc, meta = script_for(proto, frames, cs, rng)
                scripts.append((f"seg-{proto}-{len(frames)}-{len(scripts)}", proto, sc, meta))
    # many frames in one segment: bursts of 8..40 frames delivered whole, in two or three segments (cuts
    # anywhere, also inside length fields and check bytes), and with a blocking-free subscriber that takes
    # several loop turns per message
    n_burst = 0
    for proto in ("at4", "at5"):
        base = streams(proto)
        for nfr in ([12, 16, 40] if q else [8, 11, 12, 16, 24, 40, 64]):
            frames = []
            for i in range(nfr):
                f = list(base[i % 3])
                frames.append(C.from_console(proto, *_retype(proto, f), pid=(17 * i + 3) % 256))
            n = sum(len(f) for f in frames)
            for cs in [(), (n // 2,), (len(frames[0]) + 7, n - 1), tuple(sorted(rng.sample(range(1, n), 3)))]:
                sc, meta = script_for(proto, frames, cs, rng)
                scripts.append((f"burst-{proto}-{nfr}-{len(scripts)}", proto, sc, meta))
                n_burst += 1
    verdicts, metas = PS.run_batch(rep, scripts)
    PS.judge(rep, verdicts, metas)
    rep.part("bursts of 8..64 frames in one, two or three segments", scripts=n_burst)
    rep.part("segmentations of 1..3-frame streams, both generations", scripts=len(scripts),
             cut_sets_in_scope=total_space, exhaustive_up_to_cuts=("2 (3 for the short streams)"),
             sampled=q)
    rep.exhaustive = not q
    rep.sample({"kind": "segmentation", "proto": scripts[5][1], "cuts": scripts[5][3]["cuts"], "script_head": scripts[5][2][:10]})
    rep.assumptions += ["frames are intact status frames built by the simulated console; what they mean is decided by the TLA+ wire layer (AT4Msg/AT5Msg)",
                        "0..3 loop iterations between segments"]
