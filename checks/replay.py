"""Replay of one recorded violation (evidence/replays/<id>/<hash>.json) against the current /repo tree."""
import json

from . import lib


def replay(prop, path):
    d = json.load(open(path))
    rep = lib.Report(prop)
    if "script" in d and d.get("target") == "discover":
        res = lib.run_scripts([("replay", "at4", "discover", None, d["script"])])
        tr, err = res["replay"]
        traces = [{"id": "replay", "proto": "at4", "ev": lib.lower_discovery(tr)}]
        v, st = lib.validate("Trace_Discovery", traces, cfg="INIT Init\nNEXT Next\nCHECK_DEADLOCK FALSE\n", shards=1)
    elif "script" in d:
        client = any(op.get("target") in ("airtouch",) or str(op.get("target", "")).startswith(("ac:", "zone:")) for op in d["script"])
        target = "client" if client else "socket"
        res = lib.run_scripts([("replay", d["proto"], target, None, d["script"])])
        tr, err = res["replay"]
        if err:
            print("MACHINERY-FAILURE:", err)
            return 2
        meta = d.get("meta", {})
        if client:
            traces = [{"id": "replay", "proto": d["proto"], "ev": lib.lower_client(tr)}]
            v, st = lib.validate("Trace_Client", traces, shards=1)
        else:
            traces = [{"id": "replay", "proto": d["proto"], "ev": lib.lower_socket(tr, enc_of=meta.get("enc"), blockers=meta.get("blockers", ()))}]
            v, st = lib.validate("Trace_Socket", traces, shards=1)
    elif "payload" in d and "type" in d:
        from . import p_wire
        n = p_wire.decode_and_judge(rep, d["proto"], [(d.get("kind", "replay"), d["type"], d["payload"], d.get("tag", "replay"))], "replay")
        return rep.finish()
    else:
        print("replay file of this kind is informational only:", list(d)[:8])
        return 0
    viol = v["replay"]
    mine = [c for c, n in viol if prop in lib.props_of(c)]
    print("clauses broken in the replayed execution:", viol)
    if mine:
        print(f"VIOLATION property={prop} replay={path} clause={mine[0]}")
        return 1
    print(f"OK property={prop}: the recorded scenario no longer breaks a clause of this property")
    return 0
