"""C01 C02 C07 C13 C15 C16 at the socket level.

Each check = (1) binding self-test, (2) TLC model-checks the implementation-shaped model SocketImpl
against the contract monitor and structural invariants, (3) TLC-generated environment schedules of
SocketImpl replayed into the real AirTouchSocket, (4) seeded generators aimed at the property; every
recorded execution is validated by TLC against SocketContract (Trace_Socket)."""
import os
import random

from . import gen_socket as G
from . import lib
from . import p_l2 as L2
from . import p_socket as PS

L2_INV_PROPS = {"AtMostOne": "C07", "AbandonedClosed": "C07", "NoWedge": "C07", "NoGiveUp": "C07",
                "ClosedIsFinal": "C15", "QueueBound": "C16"}


def l2_exhaustive(rep, name, over, kinds, pols, timeout=1500):
    if os.environ.get("VERIF_SKIP_EXHAUSTIVE"):     # exploratory seed sweeps only: the exhaustive runs do not depend on the seed
        return None
    res = L2.model_check(over, kinds, pols, timeout=timeout)
    rep.add_tlc({"states": res["states"], "transitions": res["transitions"]})
    rep.part("SocketImpl model check: " + name, constants=over, kinds=kinds, policies=pols, states=res["states"],
             depth=res["depth"], complete=res["complete"], wall_s=res["wall"],
             invariants_violated=res["invariants_violated"], clause=res["clause"])
    if res["error"] or (res["timeout"] and not res["invariants_violated"]):
        if res["timeout"]:
            rep.part("note", text=f"{name}: TLC stopped by the time limit after {res['states']} states (no violation found)")
        else:
            rep.machinery.append(f"TLC error in {name}: {res['tail'][-600:]}")
        return res
    for inv in res["invariants_violated"]:
        props = lib.props_of(res["clause"]) if inv == "ContractHolds" else [L2_INV_PROPS.get(inv, "")]
        clause = res["clause"] if inv == "ContractHolds" else inv
        if rep.prop in props:
            rep.violation(clause, f"SocketImpl model ({name}) violates {inv}",
                          {"key": "L2:" + clause, "clause": clause, "model": "SocketImpl", "constants": over})
        else:
            rep.extra.setdefault("collateral_clauses_of_other_properties", {})["L2:" + clause] = 1
    return res


def l2_replay(rep, n, over=None, kinds="KindsAll", pols="PolAll"):
    scripts, gen, bad = L2.simulate_scripts(n, lib.seed() % 100000, over=over, kinds=kinds, pols=pols)
    if bad:
        rep.part("note", text="SocketImpl simulation reported a contract violation in the MODEL", tail=bad[0][-800:])
    batch = []
    for i, l2 in enumerate(scripts):
        proto = "at4" if i % 2 == 0 else "at5"
        hs, meta = L2.to_harness(l2, proto, seed=i)
        batch.append((f"l2-{i}", proto, hs, meta))
    for k in range(0, len(batch), 2500):
        verdicts, metas = PS.run_batch(rep, batch[k:k + 2500])
        PS.judge(rep, verdicts, metas)
        del verdicts, metas
    rep.part("SocketImpl schedules replayed into the real socket", scripts=len(batch), simulated_states=gen)
    if batch:
        rep.sample({"kind": "SocketImpl schedule", "l2_script": batch[0][3]["l2"]})
    return len(batch)


CHUNK = 2500      # scripts executed, validated and judged at a time (bounds the memory of the thorough tier)


def run_generated(rep, name, scripts):
    for k in range(0, len(scripts), CHUNK):
        verdicts, metas = PS.run_batch(rep, scripts[k:k + CHUNK])
        PS.judge(rep, verdicts, metas)
        del verdicts, metas
    rep.part(name, scripts=len(scripts))
    if scripts:
        rep.sample({"kind": name, "script_head": scripts[0][2][:14], "meta": {k: v for k, v in scripts[0][3].items() if k != "l2"}})


def seeds(n, salt):
    rng = random.Random(lib.seed() * 1000003 + salt)
    return [rng.randrange(1 << 30) for _ in range(n)]


def common(rep):
    PS.selftest(rep)
    rep.assumptions += [
        "asyncio semantics are CPython 3.12's own (real StreamReader/StreamWriter/StreamReaderProtocol on a fake transport that follows _SelectorSocketTransport's observable behaviour)",
        "SocketImpl results hold for the stated constants; the L1 verdicts hold for the executions explored",
        "the harness executes scripts and records events, it contains no oracle; TLC decides",
    ]


def check_c01(rep):
    q = rep.tier == "quick"
    common(rep)
    l2_exhaustive(rep, "ordering, 3 messages", dict(MaxMsg=3, MaxEnv=5 if q else 6, MaxTask=11), "KindsOk", "PolMixed")
    if not q:
        l2_exhaustive(rep, "with subscribers and unencodable messages", dict(MaxMsg=3, MaxEnv=6, MaxTask=12, ConnSubs="TRUE"), "KindsBad", "PolIdem", timeout=2400)
        l2_sensitivity(rep, "F_ENQ", dict(MaxMsg=2, MaxEnv=5), "KindsOk", "PolMixed", "OnceUnlessFailed")
    l2_exhaustive(rep, "back-pressure: sends suspended in drain(), cancelled by their caller", dict(MaxMsg=2, MaxEnv=5 if q else 6, Stalls="TRUE"), "KindsOk", "PolIdem")
    if not q:
        one = dict(MaxMsg=2, MaxEnv=8, MaxConn=1, MaxTask=6, H=1, Stalls="TRUE")
        l2_exhaustive(rep, "one connection, 8 environment steps: stall, two sends, one cancelled, stall ends", one, "KindsOk", "PolIdem", timeout=3000)
        l2_sensitivity(rep, "F_SOLO", one, "KindsOk", "PolIdem", "PromptAtQuiesce", timeout=3000)
    l2_replay(rep, 1200 if q else 20000)
    sd = [(f"stall-{p}-{s}", p, *G.stalled_drain(s, p)) for i, s in enumerate(seeds(300 if q else 4000, 21))
          for p in (("at4",) if i % 2 == 0 else ("at5",))]
    run_generated(rep, "stalled connections: held messages drained into them, sends piling up, callers giving up", sd)
    run_generated(rep, "random order scripts", PS.gen_scripts("order", 500 if q else 8000, lib.seed() + 1))
    run_generated(rep, "random mixed scripts", PS.gen_scripts("mixed", 300 if q else 6000, lib.seed() + 2))
    lr = [(f"long-{p}-{s}", p, *G.long_run(s, p, 300 if q else 600)) for i, s in enumerate(seeds(4 if q else 16, 1))
          for p in (("at4",) if i % 2 == 0 else ("at5",))]
    run_generated(rep, "long runs beyond the 256-value packet counter", lr)


def check_c02(rep):
    q = rep.tier == "quick"
    common(rep)
    l2_exhaustive(rep, "retries and expiry, all policies", dict(MaxMsg=2, MaxEnv=5 if q else 6), "KindsOk", "PolAll")
    l2_exhaustive(rep, "back-pressure: stalls, expiry during a stalled drain", dict(MaxMsg=2, MaxEnv=5 if q else 6, Stalls="TRUE"), "KindsOk", "PolMixed")
    if not q:
        l2_exhaustive(rep, "back-pressure, one connection, 7 environment steps", dict(MaxMsg=2, MaxEnv=7, MaxConn=1, MaxTask=7, H=1, Stalls="TRUE"), "KindsOk", "PolMixed", timeout=2400)
        l2_sensitivity(rep, "F_CLOCK", dict(MaxMsg=2, MaxEnv=7, MaxConn=1, MaxTask=7, H=1, Stalls="TRUE"), "KindsOk", "PolMixed", "NotAfterExpiry")
    l2_replay(rep, 1200 if q else 20000, kinds="KindsBad")
    run_generated(rep, "random retry scripts", PS.gen_scripts("retry", 600 if q else 10000, lib.seed() + 3))
    eb = [(f"exp-{p}-{s}", p, *G.expiry_boundary(s, p)) for i, s in enumerate(seeds(300 if q else 4000, 2))
          for p in (("at4",) if i % 2 == 0 else ("at5",))]
    run_generated(rep, "faults and connections at lifetime -125/0/+125 ms", eb)
    sd = [(f"stall-{p}-{s}", p, *G.stalled_drain(s, p)) for i, s in enumerate(seeds(300 if q else 4000, 22))
          for p in (("at4",) if i % 2 == 0 else ("at5",))]
    run_generated(rep, "held messages drained into a connection that stalls while lifetimes run out", sd)
    from . import p_client_checks as A
    A.check_c02_api(rep, 300 if q else 6000)


def check_c07(rep):
    q = rep.tier == "quick"
    common(rep)
    l2_exhaustive(rep, "fault alphabet", dict(MaxMsg=2, MaxEnv=5 if q else 6), "KindsBad", "PolMixed")
    l2_exhaustive(rep, "with connection and message subscribers", dict(MaxMsg=1, MaxEnv=5 if q else 6, ConnSubs="TRUE", MsgSubs="TRUE", MaxTask=11), "KindsBad", "PolIdem", timeout=2400)
    l2_exhaustive(rep, "a connection subscriber that sends on connect (as the API layer does)",
                  dict(MaxMsg=3, MaxEnv=5 if q else 6, ConnSubs="TRUE", SubSends="TRUE", MaxTask=12), "KindsOk", "PolIdem", timeout=2400)
    l2_exhaustive(rep, "fault alphabet with back-pressure stalls", dict(MaxMsg=2, MaxEnv=5 if q else 6, Stalls="TRUE"), "KindsOk", "PolMixed")
    if not q:
        l2_sensitivity(rep, "F_DRAIN", dict(MaxMsg=2, MaxEnv=5), "KindsBad", "PolMixed", "UnhandledException")
        l2_sensitivity(rep, "F_ONE", dict(MaxMsg=1, MaxEnv=5), "KindsOk", "PolIdem", "AtMostOne")
    l2_replay(rep, 1500 if q else 30000)
    run_generated(rep, "random fault scripts", PS.gen_scripts("faults", 700 if q else 15000, lib.seed() + 4))
    sc = [(f"slowclose-{p}-{s}", p, *G.slow_close(s, p)) for i, s in enumerate(seeds(300 if q else 5000, 77))
          for p in (("at4",) if i % 2 == 0 else ("at5",))]
    run_generated(rep, "overlapping resets while the close of a stalled connection is pending", sc)


def check_c15(rep):
    q = rep.tier == "quick"
    common(rep)
    l2_exhaustive(rep, "close at any point", dict(MaxMsg=1, MaxEnv=5 if q else 7), "KindsOk", "PolIdem")
    l2_exhaustive(rep, "close at any point of a stalled connection", dict(MaxMsg=2, MaxEnv=5 if q else 6, Stalls="TRUE"), "KindsOk", "PolIdem")
    if not q:
        l2_sensitivity(rep, "F_CLOSE", dict(MaxMsg=1, MaxEnv=5), "KindsOk", "PolIdem", "ClosedIsFinal")
        l2_sensitivity(rep, "F_REOPEN", dict(MaxMsg=1, MaxEnv=4), "KindsOk", "PolIdem", "NoGiveUp")
    l2_replay(rep, 1000 if q else 15000)
    run_generated(rep, "random close/reopen scripts", PS.gen_scripts("close", 500 if q else 8000, lib.seed() + 5))
    sa = [(f"shut-{p}-{s}", p, *G.shutdown_at(s, p)) for i, s in enumerate(seeds(500 if q else 6000, 3))
          for p in (("at4",) if i % 2 == 0 else ("at5",))]
    run_generated(rep, "shutdown at chosen instants, k iterations, optional re-open", sa)
    from . import p_client_checks as A
    A.check_c15_api(rep, 500 if q else 8000)


def check_c16(rep):
    q = rep.tier == "quick"
    common(rep)
    # queue bound scaled to 2 in the model (only the length matters): overflow is reachable exhaustively
    l2_exhaustive(rep, "queue bound scaled to 2", dict(MaxMsg=4, MaxEnv=5 if q else 6, QCap=2, MaxTask=12), "KindsOk", "PolMixed")
    l2_exhaustive(rep, "queue bound scaled to 2, with back-pressure stalls", dict(MaxMsg=3, MaxEnv=5 if q else 6, QCap=2, MaxTask=12, Stalls="TRUE"), "KindsOk", "PolMixed")
    if not q:
        l2_sensitivity(rep, "F_CAP", dict(MaxMsg=3, MaxEnv=6, QCap=2, MaxTask=12, Stalls="TRUE"), "KindsOk", "PolMixed", "QueueBound")
    l2_replay(rep, 600 if q else 8000)
    run_generated(rep, "random queue scripts", PS.gen_scripts("queue", 400 if q else 8000, lib.seed() + 6))
    qf = [(f"qf-{p}-{s}", p, *G.queue_fill(s, p)) for i, s in enumerate(seeds(400 if q else 6000, 4))
          for p in (("at4",) if i % 2 == 0 else ("at5",))]
    run_generated(rep, "up to 14 sends while down with expiries, then a connection", qf)
    sd = [(f"stall-{p}-{s}", p, *G.stalled_drain(s, p)) for i, s in enumerate(seeds(400 if q else 6000, 26))
          for p in (("at4",) if i % 2 == 0 else ("at5",))]
    run_generated(rep, "held messages drained into a connection that stalls while lifetimes run out", sd)


def check_c13(rep):
    from . import p_segments
    p_segments.check(rep)


def l2_sensitivity(rep, flag, over, kinds, pols, expect, timeout=1500):
    """Vacuity guard: with the modelled repair (or re-read of the clock) switched off, the model must
    break the named clause / invariant; otherwise the exhaustive runs would not be exercising it."""
    if os.environ.get("VERIF_SKIP_EXHAUSTIVE"):     # exploratory seed sweeps only: the exhaustive runs do not depend on the seed
        return None
    o = dict(over)
    o[flag] = "FALSE"
    res = L2.model_check(o, kinds, pols, timeout=timeout)
    rep.add_tlc({"states": res["states"], "transitions": res["transitions"]})
    got = expect in res["invariants_violated"] or expect == res["clause"]
    rep.part(f"SocketImpl sensitivity: {flag}=FALSE must violate {expect}", constants=o, violated=res["invariants_violated"],
             clause=res["clause"], states=res["states"], as_expected=got)
    if not got:
        rep.machinery.append(f"SocketImpl with {flag}=FALSE does not violate {expect} (got {res['invariants_violated']} {res['clause']}): "
                             f"the model does not exercise the property")
