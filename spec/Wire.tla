-------------------------------- MODULE Wire --------------------------------
(***************************************************************************)
(* Package framing of both generations, from the vendor documents:         *)
(*  AT4 v1.6 section 3: 0x55 0x55 | to from | id | type | len16 | data | crc16 *)
(*          crc over address .. data (header bytes excluded).              *)
(*  AT5 v1.2 section 3: 0x55 0x55 0x55 0xAA | to from | id | type | len16 | data | crc16 *)
(*          preceded (docs/design.md recorded frames) by the outer header  *)
(*          0x55 0x55 0x55 0xAB 0x00 0x00 n16 n16, n = 10 + len + 2.       *)
(* A frame is read into [ok, why, to, from, pid, type, payload]; FrameLen  *)
(* tells how many bytes the frame at the head of a buffer occupies once    *)
(* its header is complete (0 = header incomplete).                         *)
(***************************************************************************)
EXTENDS Naturals, Sequences, Crc16

U16(s, i) == s[i] * 256 + s[i + 1]

HdrLen(proto) == IF proto = "at4" THEN 8 ELSE 20
LenPos(proto) == IF proto = "at4" THEN 7 ELSE 19
CrcFrom(proto) == IF proto = "at4" THEN 3 ELSE 15      \* first byte covered by the checksum

\* total length announced by a complete header (header + data + 2 check bytes)
FrameLen(proto, b) == IF Len(b) < HdrLen(proto) THEN 0
                      ELSE HdrLen(proto) + U16(b, LenPos(proto)) + 2

PrefixOk(proto, b) ==
  IF proto = "at4" THEN b[1] = 85 /\ b[2] = 85
  ELSE /\ b[1] = 85 /\ b[2] = 85 /\ b[3] = 85 /\ b[4] = 171
       /\ b[11] = 85 /\ b[12] = 85 /\ b[13] = 85 /\ b[14] = 170

OuterOk(proto, b) ==
  proto = "at4" \/ ( /\ U16(b, 7) = U16(b, 9)
                     /\ U16(b, 7) = 10 + U16(b, 19) + 2 )

\* b is exactly one frame's worth of bytes (Len(b) = FrameLen(proto, b))
Unframe(proto, b) ==
  LET h  == HdrLen(proto)
      n  == U16(b, LenPos(proto))
      a  == IF proto = "at4" THEN 3 ELSE 15
      base == [ok |-> FALSE, why |-> "", to |-> 0, from |-> 0, pid |-> 0, type |-> 0, payload |-> <<>>]
  IN IF Len(b) < h THEN [base EXCEPT !.why = "short"]
     ELSE IF ~PrefixOk(proto, b) THEN [base EXCEPT !.why = "prefix"]
     ELSE IF ~OuterOk(proto, b) THEN [base EXCEPT !.why = "lengths"]
     ELSE IF Len(b) # h + n + 2 THEN [base EXCEPT !.why = "lengths"]
     ELSE IF CrcBytes(SubSeq(b, CrcFrom(proto), h + n)) # <<b[h + n + 1], b[h + n + 2]>>
          THEN [base EXCEPT !.why = "crc"]
     ELSE [ok |-> TRUE, why |-> "ok", to |-> b[a], from |-> b[a + 1], pid |-> b[a + 2],
           type |-> b[a + 3], payload |-> SubSeq(b, h + 1, h + n)]

\* the header alone already shows a defect (bad prefix / inconsistent outer lengths):
\* a receiver cannot know where such a frame ends
HeaderDefect(proto, b) ==
  Len(b) >= HdrLen(proto) /\ (~PrefixOk(proto, b) \/ ~OuterOk(proto, b))

\* reference framer used by the simulated console: build a frame
Frame(proto, to, from, pid, type, payload) ==
  LET n    == Len(payload)
      body == <<to, from, pid, type, n \div 256, n % 256>> \o payload
      crc  == CrcBytes(body)
  IN IF proto = "at4" THEN <<85, 85>> \o body \o crc
     ELSE LET d == 10 + n + 2
          IN <<85, 85, 85, 171, 0, 0, d \div 256, d % 256, d \div 256, d % 256, 85, 85, 85, 170>> \o body \o crc
=============================================================================
