----------------------------- MODULE Check_Crc -----------------------------
(***************************************************************************)
(* C06a: results of the real checksum calculator judged against Crc16.     *)
(* Input (TRACE_FILE): {"traces": [{"id", "b": bytes, "obs": [hi, lo] |    *)
(* {"exc":..}, "val": [[check bytes, result], ...], "swept", "acc"}]}.     *)
(* Also prints the                                                         *)
(* derived byte table T8 (used by the driver to fold longer strings; sound *)
(* by TableLemma, which MC_Crc checks over all 65536 register values).     *)
(***************************************************************************)
EXTENDS Naturals, Sequences, TLC, TLCExt, Json, IOUtils, Crc16

Cases == JsonDeserialize(IOEnv.TRACE_FILE).traces
N == Len(Cases)
Eq(a, b) == TLCFP(a) = TLCFP(b)

VARIABLES l, bad
Init == l = 1 /\ bad = 0 /\ PrintT(<<"T8", [i \in 1..256 |-> T8[i - 1]]>>)

Judge(c) ==
  LET ref == CrcBytes(c.b)
  IN IF ~Eq(c.obs, ref) THEN "WrongChecksum"
     ELSE IF \E k \in 1..Len(c.val) :
               LET chk == c.val[k][1]
                   res == c.val[k][2]
               IN ~Eq(res, IF Len(chk) = 2 THEN Eq(chk, ref) ELSE "ValueError")
     THEN "WrongValidate"
     \* swept: validate() was called with all 65536 check-byte values; exactly the reference passes
     ELSE IF c.swept /\ ~Eq(c.acc, <<ref>>) THEN "WrongValidate"
     ELSE "ok"

Next ==
  /\ l <= N
  /\ LET v == Judge(Cases[l])
     IN /\ IF v = "ok" THEN TRUE ELSE PrintT(<<"VERDICT", Cases[l].id, <<<<v, l>>>>>>)
        /\ bad' = bad + (IF v = "ok" THEN 0 ELSE 1)
  /\ l' = l + 1
Done == (l = N + 1) => PrintT(<<"TOTAL", N, bad>>)
=============================================================================
