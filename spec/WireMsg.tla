------------------------------ MODULE WireMsg ------------------------------
(* Dispatch of payload reading to the per-generation reference modules.     *)
EXTENDS Naturals, Sequences
A4 == INSTANCE AT4Msg
A5 == INSTANCE AT5Msg
ReadMsg(proto, type, payload) == IF proto = "at4" THEN A4!ReadMsg(type, payload) ELSE A5!ReadMsg(type, payload)
SoftMsg(proto, type, payload) == IF proto = "at4" THEN A4!SoftMsg(type, payload) ELSE A5!SoftMsg(type, payload)
\* header as the Python header dataclasses project it
ReadHdr(proto, u) == [k |-> IF proto = "at4" THEN "At4Header" ELSE "At5Header", to_address |-> u.to,
                      from_address |-> u.from, packet_id |-> u.pid, message_id |-> u.type,
                      message_length |-> Len(u.payload)]
=============================================================================
