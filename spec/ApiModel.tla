------------------------------ MODULE ApiModel ------------------------------
(***************************************************************************)
(* What the unified public API of pyairtouch must SHOW (snapshots of air-   *)
(* conditioners and zones) and what every public control call must DO       *)
(* (refuse locally, or transmit exactly one frame with a given protocol     *)
(* meaning).  Pure operators, no variables; TLC evaluates them as the       *)
(* oracle for traces recorded from the real client (API_BRIEF.md).          *)
(*                                                                         *)
(* Sources, in this order: the property statements C10 / C11 / C04 / C02 /  *)
(* C19 (properties.jsonl, quoted in API_BRIEF.md), the vendor protocol      *)
(* texts refs/at4_protocol_v1.6.txt ("AT4 4x" below) and                    *)
(* refs/at5_protocol_v1.2.txt ("AT5 4.x.y" below), the docstrings of        *)
(* /repo/pyairtouch/api.py ("api.py <member>" below) and docs/design.md.    *)
(* Nothing here is taken from pyairtouch/at4/api.py or at5/api.py (the      *)
(* code under test); where that code disagrees see API_NOTES.md.            *)
(*                                                                         *)
(* Shapes.  Entity state is what the reference readings AT4Msg!ReadMsg /    *)
(* AT5Msg!ReadMsg give for the frames the client consumed:                  *)
(*   AcState   == [ability |-> AcAbility record, status |-> AcStatusData    *)
(*                 record or <<>>, timer |-> AcTimerStatusData record or    *)
(*                 <<>>, err |-> <<>> or <<text bytes>>, zones |-> ids]     *)
(*   ZoneState == [id |-> n, name |-> bytes, status |-> GroupStatusData /   *)
(*                 ZoneStatusData record or <<>>]                           *)
(* Floats are one-element sequences of integer thousandths, absent values   *)
(* <<>>, text = UTF-8 bytes, enums = member-name strings; "NA" in a reading *)
(* = undocumented code or documented not-available value of a non-Optional  *)
(* field.  An expectation for one attribute is                              *)
(*   "ANY"                the statements do not determine it                *)
(*   [v |-> x]            exactly x (as harness/snapshot.py writes it)      *)
(*   [oneof |-> <<..>>]   any of the listed values                          *)
(*   [set |-> S]          a sequence without repetitions whose elements     *)
(*                        are exactly S (order free)                        *)
(* All helper names start with "Am" (no clashes when EXTENDed).             *)
(* Values of possibly different kinds are compared with WireMatch!Eq        *)
(* (TLCFP), never with = .                                                  *)
(***************************************************************************)
EXTENDS Integers, Sequences, FiniteSets, TLC, TLCExt, WireMatch

----------------------------------------------------------------------------
\* Generic helpers

AmV(x)     == [v |-> x]
AmOneOf(s) == [oneof |-> s]
AmSetOf(S) == [set |-> S]

\* x has a field / index f (x a record or a sequence; no type error for either kind)
AmHas(x, f) == \E g \in DOMAIN x : Eq(g, f)

AmMin(a, b) == IF a <= b THEN a ELSE b
AmMax(a, b) == IF a >= b THEN a ELSE b

\* a reading leaf: "NA" (undocumented / not available in a non-Optional field) determines nothing
AmLeaf(x) == IF IsNA(x) THEN "ANY" ELSE AmV(x)

\* target_temperature_resolution: C11 "1 degC AT4, 0.1 degC AT5"; api.py target_temperature_resolution
AmResolution(proto) == IF proto = "at4" THEN <<1000>> ELSE <<100>>

----------------------------------------------------------------------------
\* 1a. Zone snapshot (C10; api.py class Zone)

\* Sensor-gate rule of WireMatch.tla: for a zone whose record says "no sensor" the library may report
\* the Optional value as absent -- an absent value, never a different one.
AmGated(hasSensor, val) ==
  IF IsNA(val) THEN "ANY"
  ELSE IF Eq(hasSensor, TRUE) \/ Absent(val) THEN AmV(val)
  ELSE AmOneOf(<<val, <<>> >>)

\* AT4 4b Byte3 bit6-1 "Target setpoint" is whole degrees (reading <<n>>); the API value is a float.
\* AT5 4.a.ii Byte3 "setpoint=(value+100)/10, 0xFF invalid" is already <<thousandths>> or <<>>.
AmZoneSetPoint(proto, s) ==
  IF Absent(s.set_point) \/ IsNA(s.set_point) THEN s.set_point
  ELSE IF proto = "at4" THEN << s.set_point[1] * 1000 >> ELSE s.set_point

\* AT4 4b Byte3 bit7 "Turbo support"; AT5 4.a.ii has no such bit and 4.a.i offers "101: Set to
\* turbo" for every zone: OFF / ON / TURBO always (API_BRIEF).
AmZonePowerStates(proto, s) ==
  IF proto = "at4" THEN (IF Eq(s.supports_turbo, TRUE) THEN {"OFF", "ON", "TURBO"} ELSE {"OFF", "ON"})
  ELSE {"OFF", "ON", "TURBO"}

\* api.py sensor_battery_status: "If the zone doesn't have a temperature sensor, NORMAL is returned";
\* C10: "equals the protocol reading".  Without sensor and with the low-battery bit set both are
\* acceptable.
AmBattery(s) ==
  IF IsNA(s.battery_status) THEN "ANY"
  ELSE IF Eq(s.has_sensor, FALSE) /\ Eq(s.battery_status, "LOW") THEN AmOneOf(<<"LOW", "NORMAL">>)
  ELSE AmV(s.battery_status)

ZoneSnap(proto, z) ==
  IF Absent(z.status)
  THEN [zone_id |-> AmV(z.id), name |-> AmV(z.name),
        supported_power_states |-> IF proto = "at4" THEN "ANY" ELSE AmSetOf({"OFF", "ON", "TURBO"}),
        power_state |-> "ANY", control_method |-> "ANY", has_temp_sensor |-> "ANY",
        sensor_battery_status |-> "ANY", current_temperature |-> "ANY", target_temperature |-> "ANY",
        target_temperature_resolution |-> AmV(AmResolution(proto)),
        current_damper_percentage |-> "ANY", spill_active |-> "ANY"]
  ELSE LET s == z.status IN
       [zone_id |-> AmV(z.id),
        name |-> AmV(z.name),
        supported_power_states |-> AmSetOf(AmZonePowerStates(proto, s)),
        power_state |-> AmLeaf(s.power_state),                  \* AT4 4b Byte1 bit8-7 / AT5 4.a.ii Byte1 Bit8-7
        control_method |-> AmLeaf(s.control_method),            \* Byte2 bit8: 1 temperature, 0 percentage
        has_temp_sensor |-> AmLeaf(s.has_sensor),               \* Byte4 bit8
        sensor_battery_status |-> AmBattery(s),                 \* AT4 Byte3 bit8 / AT5 Byte7 Bit1
        \* api.py current_temperature: "None if the zone doesn't have a temperature sensor"
        current_temperature |-> AmGated(s.has_sensor, s.temperature),
        \* api.py target_temperature: "None if the zone doesn't have a sensor and no target temperature
        \* is defined"; the gate of WireMatch.tla covers the AT4 set-point only (GateRec)
        target_temperature |-> IF proto = "at4" THEN AmGated(s.has_sensor, AmZoneSetPoint(proto, s))
                               ELSE AmLeaf(AmZoneSetPoint(proto, s)),
        target_temperature_resolution |-> AmV(AmResolution(proto)),
        current_damper_percentage |-> AmLeaf(s.damper_percentage),  \* Byte2 bit7-1
        spill_active |-> AmLeaf(s.spill_active)]                     \* AT4 Byte6 bit5 / AT5 Byte7 Bit2

----------------------------------------------------------------------------
\* 1b. Air-conditioner snapshot (C10; api.py class AirConditioner)

AmModeNames == {"AUTO", "HEAT", "DRY", "FAN", "COOL"}           \* AT4 4e-i Byte23 / AT5 4.b.i Byte23
AmFanNames(proto) ==                                             \* AT4 4e-i Byte24 / AT5 4.b.i Byte24 (Bit8)
  {"AUTO", "QUIET", "LOW", "MEDIUM", "HIGH", "POWERFUL", "TURBO"}
    \cup (IF proto = "at5" THEN {"INTELLIGENT_AUTO"} ELSE {})

AmSupportedModes(ab)       == {m \in AmModeNames : AmHas(ab.ac_mode_support, m) /\ Eq(ab.ac_mode_support[m], TRUE)}
AmSupportedFans(proto, ab) == {f \in AmFanNames(proto) : AmHas(ab.fan_speed_support, f) /\ Eq(ab.fan_speed_support[f], TRUE)}

\* AT4 4c Byte1 bit8-7 (change / off / on); AT5 4.a.iii Byte1 Bit8-5 adds "Set to away", "Set to sleep"
AmPowerControls(proto) ==
  {"TOGGLE", "TURN_OFF", "TURN_ON"} \cup (IF proto = "at5" THEN {"SET_TO_AWAY", "SET_TO_SLEEP"} ELSE {})

\* C10: "Selected mode/fan report AUTO/INTELLIGENT_AUTO for the automatic variants while active
\* mode/fan report the concrete heat/cool mode and concrete speed in effect".
\* AT4 4d / AT5 4.a.iv Byte2: "1000: auto heat, 1001: auto cool".
AmSelectedMode(m) == IF IsNA(m) THEN "ANY"
                     ELSE IF Eq(m, "AUTO_HEAT") \/ Eq(m, "AUTO_COOL") THEN AmV("AUTO") ELSE AmV(m)
AmActiveMode(m)   == IF IsNA(m) THEN "ANY"
                     ELSE IF Eq(m, "AUTO_HEAT") THEN AmV("HEAT")
                     ELSE IF Eq(m, "AUTO_COOL") THEN AmV("COOL") ELSE AmV(m)

\* AT5 4.a.iv Byte2 Bit4-1 "1001 - 1110: Intelligent Auto": code - 8 is the concrete speed
\* (quiet .. turbo), which the reading names INTELLIGENT_AUTO_<speed>.
AmIntelligent == [INTELLIGENT_AUTO_QUIET |-> "QUIET", INTELLIGENT_AUTO_LOW |-> "LOW",
                  INTELLIGENT_AUTO_MEDIUM |-> "MEDIUM", INTELLIGENT_AUTO_HIGH |-> "HIGH",
                  INTELLIGENT_AUTO_POWERFUL |-> "POWERFUL", INTELLIGENT_AUTO_TURBO |-> "TURBO"]
AmIsIntelligent(f) == \E g \in DOMAIN AmIntelligent : Eq(g, f)
AmSelectedFan(f) == IF IsNA(f) THEN "ANY" ELSE IF AmIsIntelligent(f) THEN AmV("INTELLIGENT_AUTO") ELSE AmV(f)
AmActiveFan(f)   == IF IsNA(f) THEN "ANY" ELSE IF AmIsIntelligent(f) THEN AmV(AmIntelligent[f]) ELSE AmV(f)

\* Acceptable (min, max) pairs in whole degrees, or "ANY".
\* AT4 4e-i Byte25/26 "Minimum / Maximum set point".  AT5 4.b.i Byte25-28 min/max cool, min/max heat:
\* C10 "limits follow the current mode" -- HEAT: heat limits, COOL: cool limits, the automatic variants
\* either the limits of the concrete mode or the union, every other mode the union range (API_BRIEF).
AmLimits(proto, a) ==
  LET ab == a.ability IN
  IF proto = "at4" THEN << <<ab.min_set_point, ab.max_set_point>> >>
  ELSE IF Absent(a.status) THEN "ANY"
  ELSE LET m     == a.status.mode
           heat  == <<ab.min_heat_set_point, ab.max_heat_set_point>>
           cool  == <<ab.min_cool_set_point, ab.max_cool_set_point>>
           union == <<AmMin(ab.min_heat_set_point, ab.min_cool_set_point),
                      AmMax(ab.max_heat_set_point, ab.max_cool_set_point)>>
       IN IF IsNA(m) THEN "ANY"
          ELSE IF Eq(m, "HEAT") THEN <<heat>>
          ELSE IF Eq(m, "COOL") THEN <<cool>>
          ELSE IF Eq(m, "AUTO_HEAT") THEN <<heat, union>>
          ELSE IF Eq(m, "AUTO_COOL") THEN <<cool, union>>
          ELSE <<union>>

AmLimitAttr(lims, i) ==
  IF Eq(lims, "ANY") THEN "ANY"
  ELSE IF Len(lims) = 1 THEN AmV(<< lims[1][i] * 1000 >>)
  ELSE AmOneOf([j \in 1..Len(lims) |-> << lims[j][i] * 1000 >>])

\* AT4 4d Byte3 bit6-1 whole degrees (an integer in the reading); AT5 4.a.iv Byte3 <<thousandths>> / "NA"
AmAcSetPoint(proto, s) ==
  IF IsNA(s.set_point) THEN "ANY"
  ELSE IF proto = "at4" THEN AmV(<< s.set_point * 1000 >>) ELSE AmV(s.set_point)

\* api.py AcSpillState: "The AirTouch 4 doesn't report the bypass state"; AT5 4.a.iv Byte4 Bit3 bypass,
\* Bit2 spill; AT4 4d Byte3 bit8 spill.
AmSpill(proto, s) ==
  IF Eq(s.spill_active, TRUE) THEN AmV("SPILL")
  ELSE IF proto = "at5" /\ Eq(s.bypass_active, TRUE) THEN AmV("BYPASS")
  ELSE AmV("NONE")

\* api.py next_quick_timer: "None if the timer is not active".  An enabled timer whose hour / minute
\* field is no time of day (5 / 6 bit fields) determines nothing.
AmTimerAttr(t) ==
  IF Eq(t.disabled, TRUE) THEN AmV(<<>>)
  ELSE IF t.hour > 23 \/ t.minute > 59 THEN "ANY"
  ELSE AmV(<< <<t.hour, t.minute>> >>)

\* C10 "error details appear only while an error code is present"; api.py error_info "None if there
\* is no error".  The description is the text of the last error information message for this AC
\* (AT4 4e-ii / AT5 4.b.ii) or absent.
AmErrorInfo(a) ==
  LET c == a.status.error_code IN
  IF c = 0 THEN AmV(<<>>)
  \* the text of the most recent error information frame for this AC since its error state was last
  \* cleared, absent if there has been none
  ELSE AmV(<< [code |-> c, description |-> a.err] >>)

AcSnap(proto, a, zoneSnaps) ==
  LET ab      == a.ability
      known   == ~Absent(a.status)
      s       == a.status
      lims    == AmLimits(proto, a)
  IN [ac_id |-> AmV(ab.ac_number),
      name |-> AmV(ab.ac_name),
      supported_power_controls |-> AmSetOf(AmPowerControls(proto)),
      supported_modes |-> AmSetOf(AmSupportedModes(ab)),
      supported_fan_speeds |-> AmSetOf(AmSupportedFans(proto, ab)),
      power_state |-> IF known THEN AmLeaf(s.power_state) ELSE "ANY",
      selected_mode |-> IF known THEN AmSelectedMode(s.mode) ELSE "ANY",
      active_mode |-> IF known THEN AmActiveMode(s.mode) ELSE "ANY",
      selected_fan_speed |-> IF known THEN AmSelectedFan(s.fan_speed) ELSE "ANY",
      \* api.py active_fan_speed: "In most cases this will match the selected fan speed"; AT4 = selected
      active_fan_speed |-> IF known THEN AmActiveFan(s.fan_speed) ELSE "ANY",
      current_temperature |-> IF known THEN AmLeaf(s.temperature) ELSE "ANY",
      target_temperature |-> IF known THEN AmAcSetPoint(proto, s) ELSE "ANY",
      target_temperature_resolution |-> AmV(AmResolution(proto)),
      min_target_temperature |-> AmLimitAttr(lims, 1),
      max_target_temperature |-> AmLimitAttr(lims, 2),
      spill_state |-> IF known THEN AmSpill(proto, s) ELSE "ANY",
      on_timer |-> IF Absent(a.timer) THEN "ANY" ELSE AmTimerAttr(a.timer.on_timer),
      off_timer |-> IF Absent(a.timer) THEN "ANY" ELSE AmTimerAttr(a.timer.off_timer),
      error_info |-> IF known THEN AmErrorInfo(a) ELSE "ANY",
      zones |-> zoneSnaps]

AcSnapNoZones(proto, a) == AcSnap(proto, a, <<>>)

\* exp: an expectation as above; obs: [v |-> ..] | [raises |-> ..] | [unprojectable |-> ..]
AttrOK(exp, obs) ==
  \/ Eq(exp, "ANY")
  \/ /\ ~Eq(exp, "ANY")
     /\ AmHas(obs, "v")
     /\ \/ AmHas(exp, "v") /\ Eq(exp.v, obs.v)
        \/ AmHas(exp, "oneof") /\ \E i \in 1..Len(exp.oneof) : Eq(exp.oneof[i], obs.v)
        \/ /\ AmHas(exp, "set")
           /\ Len(obs.v) = Cardinality(exp.set)
           /\ \A i \in 1..Len(obs.v) : \E e \in exp.set : Eq(e, obs.v[i])
           /\ \A e \in exp.set : \E i \in 1..Len(obs.v) : Eq(e, obs.v[i])

----------------------------------------------------------------------------
\* 2. Commands (C11, C04, C02 policy part)

AmArgs(call)   == IF AmHas(call, "args") THEN call.args ELSE <<>>
AmKwargs(call) == IF AmHas(call, "kwargs") THEN call.kwargs ELSE <<>>
AmArgName(call, i) ==                    \* member name of the i-th (enum) argument, "" when missing
  LET as == AmArgs(call) IN
  IF AmHas(as, i) /\ AmHas(as[i], "name") THEN as[i].name ELSE ""
AmPowerOn(call) == LET kw == AmKwargs(call) IN AmHas(kw, "power_on") /\ Eq(kw.power_on, TRUE)

\* target kind: the `tk` field of the call event when present, else z = <<>> means an AC call
AmKind(call, z) ==
  IF AmHas(call, "tk") THEN call.tk
  ELSE IF call.method = "check_for_updates" THEN "airtouch"
  ELSE IF Absent(z) THEN "ac" ELSE "zone"

\* policy (C02 policy part; docs/design.md "Retries"): "once" = the accumulating command, no retry
\* (0 retries, 30 s lifetime); "idempotent" = every other public call, the update check included
\* (2 retries, 30 s lifetime).
AmResult(rej, msgs, any, nonidem) ==
  [reject |-> rej, msgs |-> msgs, any |-> any, nonidem |-> nonidem,
   policy |-> IF nonidem THEN "once" ELSE "idempotent"]
AmAccept(msgs)  == AmResult(FALSE, msgs, FALSE, FALSE)
AmRefuse        == AmResult(TRUE, <<>>, FALSE, FALSE)
AmUndetermined  == AmResult("ANY", <<>>, TRUE, FALSE)

\* ---- message readings in the shape of AT4Msg!ReadMsg / AT5Msg!ReadMsg ----
AmExt(sub) == [k |-> "ExtendedMessage", sub_message |-> sub]
AmCS(sub)  == [k |-> "ControlStatusMessage", sub_message |-> sub]

\* sp = <<>> (keep) or <<tenths of a degree>>.
\* AT4 4c: Byte1 power + AC number, Byte2 mode + fan, Byte3 "01: Set setpoint to a specific value".
\* AT5 4.a.iii: one repeat record; Byte3 0x40 + Byte4 "(setpoint * 10) - 100".
AmAcCtl(proto, n, power, mode, fan, sp) ==
  IF proto = "at4"
  THEN [k |-> "AcControlMessage", ac_number |-> n, power |-> power, mode |-> mode, fan_speed |-> fan,
        set_point_control |-> IF sp = <<>> THEN <<>>
                              ELSE << [k |-> "AcSetPointValue", set_point |-> sp[1] \div 10] >>]
  ELSE AmCS([k |-> "AcControlMessage",
             ac_control |-> << [k |-> "AcControlData", ac_number |-> n, power |-> power, mode |-> mode,
                                fan_speed |-> fan,
                                set_point |-> IF sp = <<>> THEN <<>> ELSE << sp[1] * 100 >>] >>])

\* AT4 4a: Byte1 group, Byte2 setting / control method / power, Byte3 value.  `setting` is "keep",
\* <<"sp", tenths>> or <<"damper", pct>>; `method` the AT4 control-method reading.
\* AT5 4.a.i: one repeat record (the reading has no control-type field).
AmZoneCtl(proto, n, power, method, setting) ==
  IF proto = "at4"
  THEN [k |-> "GroupControlMessage", group_number |-> n, power |-> power, control_method |-> method,
        setting |-> IF Eq(setting, "keep") THEN <<>>
                    ELSE IF setting[1] = "sp"
                         THEN << [k |-> "GroupSetPointControl", set_point |-> setting[2] \div 10] >>
                         ELSE << [k |-> "GroupDamperControl", open_percentage |-> setting[2]] >>]
  ELSE AmCS([k |-> "ZoneControlMessage",
             zone_control |-> << [k |-> "ZoneControlData", zone_number |-> n, zone_power |-> power,
                                  zone_setting |-> IF Eq(setting, "keep") THEN <<>>
                                                   ELSE IF setting[1] = "sp"
                                                        THEN << [k |-> "ZoneSetPointControl", set_point |-> << setting[2] * 100 >>] >>
                                                        ELSE << [k |-> "ZoneDamperControl", open_percentage |-> setting[2]] >>] >>])

\* ---- rounding (C11 "rounded to the model's resolution (1 degC AT4, 0.1 degC AT5)") ----
\* thousandths of a degree of a script-form temperature argument, <<>> if it has neither form
AmMilli(arg) ==
  IF AmHas(arg, "twentieths") THEN << arg.twentieths * 50 >>
  ELSE IF AmHas(arg, "f") THEN << arg.f >>
  ELSE <<>>

\* acceptable roundings, in tenths of a degree; an exact decimal tie accepts either neighbour
AmRounded(proto, milli) ==
  LET u == IF proto = "at4" THEN 1000 ELSE 100          \* resolution in thousandths
      w == u \div 100                                   \* resolution in tenths
      q == milli \div u
      r == milli % u
  IN IF 2 * r < u THEN << q * w >>
     ELSE IF 2 * r > u THEN << (q + 1) * w >>
     ELSE << q * w, (q + 1) * w >>

AmClamp(x, lo, hi) == IF x < lo THEN lo ELSE IF x > hi THEN hi ELSE x

\* AT4 4c Byte3 bit6-1: six bits, whole degrees.  AT5 4.a.iii Byte4: one byte "(setpoint * 10) - 100".
AmAcFits(proto, tenths) ==
  IF proto = "at4" THEN tenths >= 0 /\ tenths \div 10 <= 63 ELSE tenths >= 100 /\ tenths - 100 <= 255
\* AT4 4a Byte3: one byte, whole degrees.  AT5 4.a.i Byte3: "When set temperature: 0-250".
AmZoneFits(proto, tenths) ==
  IF proto = "at4" THEN tenths >= 0 /\ tenths \div 10 <= 255 ELSE tenths >= 100 /\ tenths - 100 <= 250

\* flatten the (rounding x limits) candidates into one sequence of tenths
AmAcCandidates(rs, lims) ==
  [i \in 1..(Len(rs) * Len(lims)) |->
     LET r == rs[((i - 1) % Len(rs)) + 1]
         l == lims[((i - 1) \div Len(rs)) + 1]
     IN AmClamp(r, l[1] * 10, l[2] * 10)]

\* ---- the calls ----

\* api.py AirConditioner.set_power: "ValueError: If the requested power control is not supported";
\* C02: the power toggle is the accumulating command -> nonidem.
AmAcSetPower(proto, call, a) ==
  LET pc == AmArgName(call, 1) IN
  IF pc \notin AmPowerControls(proto) THEN AmRefuse
  ELSE AmResult(FALSE, << AmAcCtl(proto, a.ability.ac_number, pc, "UNCHANGED", "UNCHANGED", <<>>) >>,
                FALSE, pc = "TOGGLE")

\* api.py set_mode: "optionally powers on the air-conditioner if it is currently turned off";
\* "ValueError: The requested mode is not supported".  Without power_on the power field is keep.  With
\* power_on a unit reported OFF must get TURN_ON; for every other (or unknown) power state the frame
\* may carry TURN_ON or keep: the caller asked for the unit to be on, "Set to on" has no effect on a
\* unit that is on (docs/design.md "Retries"), and no statement says what power_on means for the AT5
\* away / sleep states (tolerance T3 of API_NOTES.md).
AmAcSetMode(proto, call, a) ==
  LET mode == AmArgName(call, 1)
      n    == a.ability.ac_number
      won  == AmAcCtl(proto, n, "TURN_ON", mode, "UNCHANGED", <<>>)
      wout == AmAcCtl(proto, n, "UNCHANGED", mode, "UNCHANGED", <<>>)
  IN IF mode \notin AmSupportedModes(a.ability) THEN AmRefuse
     ELSE IF ~AmPowerOn(call) THEN AmAccept(<<wout>>)
     \* api.py: "powers on the air-conditioner if it is currently turned off": a unit reported off
     \* (also off in away mode / forced off) must get TURN_ON; for a running or unknown one both read right
     ELSE IF ~Absent(a.status) /\ a.status.power_state \in {"OFF", "OFF_AWAY"} THEN AmAccept(<<won>>)
     ELSE AmAccept(<<won, wout>>)

\* api.py set_fan_speed: "ValueError: The requested fan speed is not supported"
AmAcSetFan(proto, call, a) ==
  LET fan == AmArgName(call, 1) IN
  IF fan \notin AmSupportedFans(proto, a.ability) THEN AmRefuse
  ELSE AmAccept(<< AmAcCtl(proto, a.ability.ac_number, "UNCHANGED", "UNCHANGED", fan, <<>>) >>)

\* api.py AirConditioner.set_target_temperature: "rounded to the target_temperature_resolution and
\* bounded by min_target_temperature and max_target_temperature"; never refused.
AmAcSetTemp(proto, call, a) ==
  LET as   == AmArgs(call)
      mi   == IF AmHas(as, 1) THEN AmMilli(as[1]) ELSE <<>>
      lims == AmLimits(proto, a)
  IN IF mi = <<>> \/ Eq(lims, "ANY") THEN AmUndetermined
     ELSE IF \E i \in 1..Len(lims) : lims[i][1] > lims[i][2] THEN AmUndetermined
     ELSE LET cs == AmAcCandidates(AmRounded(proto, mi[1]), lims) IN
          IF \E i \in 1..Len(cs) : ~AmAcFits(proto, cs[i]) THEN AmUndetermined
          ELSE AmAccept([i \in 1..Len(cs) |->
                          AmAcCtl(proto, a.ability.ac_number, "UNCHANGED", "UNCHANGED", "UNCHANGED", << cs[i] >>)])

\* Timer records.  Layout of the reading: AT4Msg.tla "AC timer control (0x36)", AT5Msg.tla "AC timer
\* control (0x32)".  C11: "setting or clearing one quick timer leaves the other timer exactly as last
\* reported".  "ANY" leaves are wild cards (see CmdMatches): the hour / minute of a disabled timer
\* carry no meaning ("Values should be ignored if the timer is disabled"), a timer never reported is
\* unknown.
AmTimerSet(h, m) == [k |-> "AcTimerState", disabled |-> FALSE, hour |-> h, minute |-> m]
AmTimerOff       == [k |-> "AcTimerState", disabled |-> TRUE, hour |-> "ANY", minute |-> "ANY"]
AmTimerKeep(t)   == IF Eq(t.disabled, TRUE) THEN AmTimerOff ELSE t

AmTimerRec(a, type, state) ==
  LET other(f) == IF Absent(a.timer) THEN "ANY" ELSE AmTimerKeep(a.timer[f]) IN
  [k |-> "AcTimerStatusData", ac_number |-> a.ability.ac_number,
   on_timer  |-> IF type = "ON_TIMER" THEN state ELSE other("on_timer"),
   off_timer |-> IF type = "OFF_TIMER" THEN state ELSE other("off_timer")]

\* AT5: one record carrying its AC number.  AT4: the AC number is the index of the record; the
\* records of the other ACs are not determined by any statement (no source defines a keep value for
\* a timer record): wild cards, for every length that reaches the target AC (the console reports
\* four records).
AmTimerCtl(proto, a, type, state) ==
  LET rec == AmTimerRec(a, type, state)
      n   == a.ability.ac_number
  IN IF proto = "at5"
     THEN AmAccept(<< AmCS([k |-> "AcTimerControlMessage", ac_timer_status |-> <<rec>>]) >>)
     ELSE IF n > 3 THEN AmUndetermined
     ELSE AmAccept([j \in 1..(4 - n) |->
                     [k |-> "AcTimerControlMessage",
                      ac_timer_status |-> [i \in 1..(n + j) |-> IF i = n + 1 THEN rec ELSE "ANY"]]])

\* Quick timer by duration: AT4Msg.tla "Quick timer (0xFF 0x20)", AT5Msg.tla "Quick timer (0xFF 0x49)";
\* api.py set_quick_timer "truncated to a one minute resolution"; hours = floor(s / 3600) mod 24,
\* minutes = floor((s mod 3600) / 60) (API_BRIEF).
AmQuickTimer(proto, a, type, secs) ==
  LET h == (secs \div 3600) % 24
      m == (secs % 3600) \div 60
  IN AmAccept(<< AmExt([k |-> "QuickTimerMessage", ac_number |-> a.ability.ac_number, timer_type |-> type,
                        duration |-> [k |-> "timedelta", d |-> 0, s |-> h * 3600 + m * 60, us |-> 0]]) >>)

AmAcSetTimer(proto, call, a) ==
  LET type == AmArgName(call, 1)
      as   == AmArgs(call)
  IN IF type \notin {"ON_TIMER", "OFF_TIMER"} \/ ~AmHas(as, 2) THEN AmUndetermined
     ELSE IF AmHas(as[2], "time")
          THEN LET h == as[2].time[1]
                   m == as[2].time[2]
               IN IF h \notin 0..23 \/ m \notin 0..59 THEN AmUndetermined
                  ELSE AmTimerCtl(proto, a, type, AmTimerSet(h, m))
     ELSE IF AmHas(as[2], "seconds")
          THEN IF as[2].seconds < 0 THEN AmUndetermined ELSE AmQuickTimer(proto, a, type, as[2].seconds)
     ELSE AmUndetermined

AmAcClearTimer(proto, call, a) ==
  LET type == AmArgName(call, 1) IN
  IF type \notin {"ON_TIMER", "OFF_TIMER"} THEN AmUndetermined
  ELSE AmTimerCtl(proto, a, type, AmTimerOff)

\* api.py Zone.set_power: "ValueError: If the zone does not support the requested power state"
\* AT4 4a Byte2 bit3-1 / AT5 4.a.i Byte2 Bit3-1: 010 off, 011 on, 101 turbo.
AmZonePowerCtl(ps) == CASE ps = "OFF" -> "TURN_OFF" [] ps = "ON" -> "TURN_ON" [] ps = "TURBO" -> "TURBO"
                        [] OTHER -> "UNCHANGED"
AmZoneSetPower(proto, call, z) ==
  LET ps  == AmArgName(call, 1)
      msg == AmZoneCtl(proto, z.id, AmZonePowerCtl(ps), "UNCHANGED", "keep")
  IN IF ps \notin {"OFF", "ON", "TURBO"} THEN AmRefuse
     ELSE IF proto = "at4" /\ ps = "TURBO"
          THEN IF Absent(z.status) THEN AmResult("ANY", <<msg>>, FALSE, FALSE)
               ELSE IF Eq(z.status.supports_turbo, TRUE) THEN AmAccept(<<msg>>) ELSE AmRefuse
     ELSE AmAccept(<<msg>>)

\* api.py Zone.set_target_temperature: "rounded according to target_temperature_resolution";
\* "ValueError: If the zone does not have a temperature sensor".  C04: "exactly the requested value"
\* (C11 clamps air-conditioner set-points only).  The control method in the frame may be keep or the
\* method implied by the setting (API_BRIEF).
AmZoneSetTemp(proto, call, z) ==
  LET as   == AmArgs(call)
      mi   == IF AmHas(as, 1) THEN AmMilli(as[1]) ELSE <<>>
      rs   == IF mi = <<>> THEN <<>> ELSE AmRounded(proto, mi[1])
      fits == mi # <<>> /\ \A i \in 1..Len(rs) : AmZoneFits(proto, rs[i])
      ms   == IF proto = "at4" THEN <<"UNCHANGED", "TEMPERATURE">> ELSE <<"UNCHANGED">>
      msgs == [i \in 1..(Len(rs) * Len(ms)) |->
                 AmZoneCtl(proto, z.id, "UNCHANGED", ms[((i - 1) \div Len(rs)) + 1],
                           <<"sp", rs[((i - 1) % Len(rs)) + 1]>>)]
  IN IF Absent(z.status) \/ IsNA(z.status.has_sensor)
     THEN (IF fits THEN AmResult("ANY", msgs, FALSE, FALSE) ELSE AmUndetermined)
     ELSE IF Eq(z.status.has_sensor, FALSE) THEN AmRefuse
     ELSE IF fits THEN AmAccept(msgs) ELSE AmUndetermined

\* api.py set_damper_percentage: "The requested damper opening in the range [0, 100]"; C11 "a damper
\* value outside 0..100 ... raises ValueError and transmits nothing".
AmZoneSetDamper(proto, call, z) ==
  LET as == AmArgs(call) IN
  IF ~AmHas(as, 1) THEN AmUndetermined
  ELSE LET p  == as[1]
           ms == IF proto = "at4" THEN <<"UNCHANGED", "DAMPER">> ELSE <<"UNCHANGED">>
       IN IF p < 0 \/ p > 100 THEN AmRefuse
          ELSE AmAccept([i \in 1..Len(ms) |-> AmZoneCtl(proto, z.id, "UNCHANGED", ms[i], <<"damper", p>>)])

\* api.py check_for_updates "Poll to check for available updates": AT4 4e-iv / AT5 4.b.iv request
AmCheckUpdates == AmAccept(<< AmExt([k |-> "ConsoleVersionRequest"]) >>)

\* <<retries, lifetime in ms>> of a policy
PolicyOf(p) == IF p = "once" THEN <<0, 30000>> ELSE <<2, 30000>>

\* call: the trace event of the public call; a / z: AcState / ZoneState of the target (z = <<>> for AC
\* calls, a = owning AC for zone calls; neither is looked at for the AirTouch call).
Expect(proto, call, a, z) ==
  LET m    == call.method
      kind == AmKind(call, z)
  IN CASE kind = "airtouch" /\ m = "check_for_updates" -> AmCheckUpdates
       [] kind = "ac" /\ m = "set_power" -> AmAcSetPower(proto, call, a)
       [] kind = "ac" /\ m = "set_mode" -> AmAcSetMode(proto, call, a)
       [] kind = "ac" /\ m = "set_fan_speed" -> AmAcSetFan(proto, call, a)
       [] kind = "ac" /\ m = "set_target_temperature" -> AmAcSetTemp(proto, call, a)
       [] kind = "ac" /\ m = "set_quick_timer" -> AmAcSetTimer(proto, call, a)
       [] kind = "ac" /\ m = "clear_quick_timer" -> AmAcClearTimer(proto, call, a)
       [] kind = "zone" /\ m = "set_power" -> AmZoneSetPower(proto, call, z)
       [] kind = "zone" /\ m = "set_target_temperature" -> AmZoneSetTemp(proto, call, z)
       [] kind = "zone" /\ m = "set_damper_percentage" -> AmZoneSetDamper(proto, call, z)
       [] OTHER -> AmUndetermined

\* ---- matching an observed reading against one acceptable reading (wild cards in timer records) ----
AmTimerStateOK(p, o) ==
  \/ Eq(p, "ANY")
  \/ /\ ~Eq(p, "ANY")
     /\ Eq(p.k, o.k) /\ Eq(p.disabled, o.disabled)
     /\ (Eq(p.hour, "ANY") \/ Eq(p.hour, o.hour))
     /\ (Eq(p.minute, "ANY") \/ Eq(p.minute, o.minute))
AmTimerRecOK(p, o) ==
  \/ Eq(p, "ANY")
  \/ /\ ~Eq(p, "ANY")
     /\ Eq(p.k, o.k) /\ Eq(p.ac_number, o.ac_number)
     /\ AmTimerStateOK(p.on_timer, o.on_timer) /\ AmTimerStateOK(p.off_timer, o.off_timer)
AmTimerMsgOK(p, o) ==
  /\ Eq(o.k, "AcTimerControlMessage") /\ AmHas(o, "ac_timer_status")
  /\ Len(p.ac_timer_status) = Len(o.ac_timer_status)
  /\ \A i \in 1..Len(p.ac_timer_status) : AmTimerRecOK(p.ac_timer_status[i], o.ac_timer_status[i])

AmMsgOK(p, o) ==
  IF Eq(p.k, "AcTimerControlMessage") THEN AmTimerMsgOK(p, o)
  ELSE IF Eq(p.k, "ControlStatusMessage") /\ Eq(p.sub_message.k, "AcTimerControlMessage")
       THEN Eq(o.k, "ControlStatusMessage") /\ AmHas(o, "sub_message") /\ AmTimerMsgOK(p.sub_message, o.sub_message)
  ELSE Eq(p, o)

\* exp = Expect(..); reading = the reference reading of the one transmitted frame
CmdMatches(exp, reading) ==
  \/ Eq(exp.any, TRUE)
  \/ \E i \in 1..Len(exp.msgs) : AmMsgOK(exp.msgs[i], reading)

\* The whole verdict for one call: raised = the call raised ValueError, readings = the reference
\* readings of the frames transmitted because of it (C11 "raises ValueError and transmits nothing",
\* "each accepted call transmits exactly one frame").
ExpectOK(exp, raised, readings) ==
  /\ Eq(exp.reject, TRUE) => raised
  /\ Eq(exp.reject, FALSE) => ~raised
  /\ raised => Len(readings) = 0
  /\ ~raised => \/ Eq(exp.any, TRUE)
                \/ Len(readings) = 1 /\ CmdMatches(exp, readings[1])

----------------------------------------------------------------------------
\* 3. Cross-generation view (C19)

AmDrop(r, fs) == [f \in (DOMAIN r) \ fs |-> r[f]]

\* "Documented differences: set-point resolution, away/sleep and intelligent-auto support, bypass
\* reporting, per-mode limits": the attributes that carry them are dropped, the rest must be equal.
CommonZone(proto, zoneSnap) == AmDrop(zoneSnap, {"target_temperature_resolution"})

Common(proto, acSnap) ==
  LET r == AmDrop(acSnap, {"target_temperature_resolution", "supported_power_controls",
                           "min_target_temperature", "max_target_temperature"})
  IN IF AmHas(r, "zones") /\ ~AmHas(r.zones, "raises")
     THEN [r EXCEPT !.zones = [i \in 1..Len(r.zones) |-> CommonZone(proto, r.zones[i])]]
     ELSE r

AmKeep(x) == IF Eq(x, "UNCHANGED") THEN "keep" ELSE x

AmAbstract(target, power, mode, fan, sp, damper, timers, quick, request) ==
  [target |-> target, power |-> power, mode |-> mode, fan |-> fan, setpoint_tenths |-> sp,
   damper |-> damper, timers |-> timers, quick |-> quick, request |-> request]
AmAbsOther(m) == AmAbstract(<<"other", 0>>, "keep", "keep", "keep", <<>>, <<>>, "keep", <<>>, "other")

\* timer state in neutral terms: <<>> = disabled, <<h, m>> = enabled at h:m
AmAbsTimer(t) == IF Eq(t, "ANY") THEN "ANY" ELSE IF Eq(t.disabled, TRUE) THEN <<>> ELSE <<t.hour, t.minute>>
\* (the wild-card records / states of an expectation pattern are passed through as "ANY")
AmAbsTimers(recs) ==
  [i \in 1..Len(recs) |-> IF Eq(recs[i], "ANY") THEN <<i - 1, "ANY", "ANY">>
                          ELSE <<recs[i].ac_number, AmAbsTimer(recs[i].on_timer), AmAbsTimer(recs[i].off_timer)>>]
AmAbsQuick(q) == AmAbstract(<<"ac", q.ac_number>>, "keep", "keep", "keep", <<>>, <<>>, "keep",
                            <<q.timer_type, q.duration.d * 1440 + q.duration.s \div 60>>, "none")

\* The protocol meaning of a command reading in generation-neutral terms; keep = "keep" (<<>> for
\* set-point and damper).  The zone control method of the AT4 reading is not part of it (the AT5
\* reading cannot show it).  timers: "keep", or one <<ac, on, off>> triple per timer record; an AT4
\* timer control addresses its ACs by position, its target is <<"acs", number of records>> and
\* AbstractTimerFor picks the triple of one AC.  quick: <<>> or <<timer type, minutes>>.
AbstractCmd(proto, m) ==
  IF proto = "at4" THEN
    CASE Eq(m.k, "AcControlMessage") ->
           AmAbstract(<<"ac", m.ac_number>>, AmKeep(m.power), AmKeep(m.mode), AmKeep(m.fan_speed),
                      IF m.set_point_control = <<>> THEN <<>>
                      ELSE IF Eq(m.set_point_control[1], "INCREASE") \/ Eq(m.set_point_control[1], "DECREASE")
                           THEN m.set_point_control
                      ELSE << m.set_point_control[1].set_point * 10 >>,
                      <<>>, "keep", <<>>, "none")
      [] Eq(m.k, "GroupControlMessage") ->
           LET s == m.setting
               isSp == s # <<>> /\ AmHas(s[1], "set_point")
               isDp == s # <<>> /\ AmHas(s[1], "open_percentage")
           IN AmAbstract(<<"zone", m.group_number>>, AmKeep(m.power), "keep", "keep",
                         IF isSp THEN << s[1].set_point * 10 >> ELSE IF s = <<>> \/ isDp THEN <<>> ELSE s,
                         IF isDp THEN << s[1].open_percentage >> ELSE <<>>, "keep", <<>>, "none")
      [] Eq(m.k, "AcTimerControlMessage") ->
           AmAbstract(<<"acs", Len(m.ac_timer_status)>>, "keep", "keep", "keep", <<>>, <<>>,
                      AmAbsTimers(m.ac_timer_status), <<>>, "none")
      [] Eq(m.k, "ExtendedMessage") /\ Eq(m.sub_message.k, "QuickTimerMessage") -> AmAbsQuick(m.sub_message)
      [] Eq(m.k, "ExtendedMessage") /\ Eq(m.sub_message.k, "ConsoleVersionRequest") ->
           AmAbstract(<<"airtouch", 0>>, "keep", "keep", "keep", <<>>, <<>>, "keep", <<>>, "version")
      [] OTHER -> AmAbsOther(m)
  ELSE
    CASE Eq(m.k, "ControlStatusMessage") /\ Eq(m.sub_message.k, "AcControlMessage")
           /\ Len(m.sub_message.ac_control) = 1 ->
           LET c == m.sub_message.ac_control[1] IN
           AmAbstract(<<"ac", c.ac_number>>, AmKeep(c.power), AmKeep(c.mode), AmKeep(c.fan_speed),
                      IF c.set_point = <<>> THEN <<>> ELSE << c.set_point[1] \div 100 >>,
                      <<>>, "keep", <<>>, "none")
      [] Eq(m.k, "ControlStatusMessage") /\ Eq(m.sub_message.k, "ZoneControlMessage")
           /\ Len(m.sub_message.zone_control) = 1 ->
           LET c == m.sub_message.zone_control[1]
               s == c.zone_setting
               isSp == s # <<>> /\ AmHas(s[1], "set_point")
               isDp == s # <<>> /\ AmHas(s[1], "open_percentage")
           IN AmAbstract(<<"zone", c.zone_number>>, AmKeep(c.zone_power), "keep", "keep",
                         IF isSp THEN << s[1].set_point[1] \div 100 >> ELSE IF s = <<>> \/ isDp THEN <<>> ELSE s,
                         IF isDp THEN << s[1].open_percentage >> ELSE <<>>, "keep", <<>>, "none")
      [] Eq(m.k, "ControlStatusMessage") /\ Eq(m.sub_message.k, "AcTimerControlMessage") ->
           LET recs == m.sub_message.ac_timer_status IN
           AmAbstract(IF Len(recs) = 1 THEN <<"ac", recs[1].ac_number>> ELSE <<"acs", Len(recs)>>,
                      "keep", "keep", "keep", <<>>, <<>>, AmAbsTimers(recs), <<>>, "none")
      [] Eq(m.k, "ExtendedMessage") /\ Eq(m.sub_message.k, "QuickTimerMessage") -> AmAbsQuick(m.sub_message)
      [] Eq(m.k, "ExtendedMessage") /\ Eq(m.sub_message.k, "ConsoleVersionRequest") ->
           AmAbstract(<<"airtouch", 0>>, "keep", "keep", "keep", <<>>, <<>>, "keep", <<>>, "version")
      [] OTHER -> AmAbsOther(m)

\* the <<on, off>> pair an abstract timer command gives AC n, <<>> if it has no record for it
AbstractTimerFor(abs, n) ==
  IF Eq(abs.timers, "keep") THEN <<>>
  ELSE LET hits == SelectSeq(abs.timers, LAMBDA t : Eq(t[1], n))
       IN IF hits = <<>> THEN <<>> ELSE << hits[Len(hits)][2], hits[Len(hits)][3] >>
=============================================================================
