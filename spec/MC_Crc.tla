------------------------------- MODULE MC_Crc -------------------------------
EXTENDS Crc16, TLC
VARIABLE r
Init == r \in 0..65535
Next == UNCHANGED r
Lemma == TableLemmaAt(r) /\ TableLemmaPair(r, r % 256) /\ TableLemmaPair(r, (r \div 256))
ASSUME Anchors
=============================================================================
