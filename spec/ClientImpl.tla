----------------------------- MODULE ClientImpl -----------------------------
(***************************************************************************)
(* Implementation-shaped model (L2) of the API layer: AirTouch4 /          *)
(* AirTouch5 (`atN/api.py`) with its HeartbeatManager                      *)
(* (`comms/heartbeat.py`) on an asyncio loop, over an ABSTRACT socket      *)
(* (open / connected; a request is written at once when connected, else    *)
(* dropped after its one-second lifetime).                                 *)
(*                                                                         *)
(* Tasks: init(), shutdown(), the socket's connection-changed callback,    *)
(* the read loop that runs `_message_received` for one frame at a time,    *)
(* the heartbeat loop, the heartbeat watchdog, the AT4 group-status poll.  *)
(* One pc per await-free segment; awaits that go through                   *)
(* `_notify_subscribers` (as_completed) take 1..H loop turns when there is *)
(* something to notify.  The environment calls init()/shutdown(), brings   *)
(* the link up / down, delivers console frames and advances the clock, at  *)
(* loop-iteration boundaries only.                                         *)
(*                                                                         *)
(* Every action emits the external events it causes; `mon` is the state of *)
(* the L1 monitor ClientContract!CStep fed with them (same operator that   *)
(* judges recorded traces of the real client).  Checked: mon.viol = <<>>   *)
(* and the structural invariants below.  F_WATCHDOG / F_RECHECK switch the *)
(* two API-level defects repaired in the pinned tree back on.              *)
(***************************************************************************)
EXTENDS Naturals, Integers, Sequences, FiniteSets, FiniteSetsExt, TLC, TLCExt, Wire, WireMsg

CONSTANTS PROTO, MaxTask, MaxEnv, MaxFrames, H, Notifies, F_WATCHDOG, F_RECHECK, F_ZONE2AC, Cmds, PostInit, Subs, Record

U == 5000                       \* ms per model time unit
INIT_T == 1                     \* init() waits 5 s
HB_I   == 60                    \* heartbeat every 300 s
HB_T   == 66                    \* watchdog 330 s
POLL_I == 60                    \* AT4 group poll 300 s
Dts    == {1, 6, 60}

CC == INSTANCE ClientContract WITH HB_INTERVAL <- HB_I * U, HB_TIMEOUT <- HB_T * U, POLL_INTERVAL <- POLL_I * U,
                                   INIT_TIMEOUT <- INIT_T * U

VARIABLES S, mon, script
vars == <<S, mon, script>>

None == 0
INF == 1000000

-----------------------------------------------------------------------------
\* console frames (payloads per the vendor documents; read by the reference wire layer)
Name16(s) == s \o [i \in 1..(16 - Len(s)) |-> 0]
P4 == [version |-> <<31, <<255, 48, 0, 5, 49, 46, 51, 46, 51>>>>,
       version2 |-> <<31, <<255, 48, 1, 5, 49, 46, 51, 46, 51>>>>,      \* the same versions, an update has become available
       names |-> <<31, <<255, 18, 0, 76, 105, 118, 105, 110, 103, 0, 0>>>>,
       ability |-> <<31, <<255, 17, 0, 24>> \o Name16(<<85, 78, 73, 84>>) \o <<0, 1, 23, 29, 17, 31, 1, 0>>>>,
       acstatus |-> <<45, <<64, 66, 26, 0, 97, 128, 0, 0>>>>,
       acstatus2 |-> <<45, <<0, 66, 24, 0, 97, 128, 0, 0>>>>,
       timer |-> <<55, [i \in 1..32 |-> IF i % 8 \in {1, 3} THEN 128 ELSE 0]>>,
       zonestatus |-> <<43, <<64, 100, 26, 128, 97, 128>>>>,
       zonestatus2 |-> <<43, <<0, 50, 26, 128, 97, 128>>>>]
P5 == [version |-> <<31, <<255, 48, 0, 5, 49, 46, 48, 46, 49>>>>,
       version2 |-> <<31, <<255, 48, 1, 5, 49, 46, 48, 46, 49>>>>,
       names |-> <<31, <<255, 19, 0, 6, 76, 105, 118, 105, 110, 103>>>>,
       ability |-> <<31, <<255, 17, 0, 24>> \o Name16(<<85, 78, 73, 84>>) \o <<0, 1, 23, 29, 16, 31, 18, 31>>>>,
       acstatus |-> <<192, <<35, 0, 0, 0, 0, 10, 0, 1, 16, 18, 120, 0, 2, 218, 0, 0, 0, 0>>>>,
       acstatus2 |-> <<192, <<35, 0, 0, 0, 0, 10, 0, 1, 0, 18, 110, 0, 2, 218, 0, 0, 0, 0>>>>,
       timer |-> <<192, <<51, 0, 0, 0, 0, 9, 0, 1, 0, 128, 0, 128, 0, 0, 0, 0, 0>>>>,
       zonestatus |-> <<192, <<33, 0, 0, 0, 0, 8, 0, 1, 64, 128, 150, 128, 2, 231, 0, 0>>>>,
       zonestatus2 |-> <<192, <<33, 0, 0, 0, 0, 8, 0, 1, 0, 50, 150, 128, 2, 231, 0, 0>>>>]
PL == IF PROTO = "at4" THEN P4 ELSE P5

Reading(kind) == ReadMsg(PROTO, PL[kind][1], PL[kind][2])
RxAlts(kind) ==
  LET ty == PL[kind][1]
      hd == [k |-> IF PROTO = "at4" THEN "At4Header" ELSE "At5Header", to_address |-> 176,
             from_address |-> IF ty = 31 THEN 144 ELSE 128, packet_id |-> 1, message_id |-> ty,
             message_length |-> Len(PL[kind][2])]
  IN <<[hdr |-> hd, msg |-> Reading(kind)]>>

\* requests the client writes (readings in the shape of ReadMsg)
Ext(sub) == [k |-> "ExtendedMessage", sub_message |-> sub]
C0(sub) == IF PROTO = "at4" THEN sub ELSE [k |-> "ControlStatusMessage", sub_message |-> sub]
ALL == <<65, 76, 76>>
Req(kind) ==
  CASE kind = "version" -> Ext([k |-> "ConsoleVersionRequest"])
    [] kind = "names" -> Ext(IF PROTO = "at4" THEN [k |-> "GroupNamesRequest", group_number |-> ALL]
                                              ELSE [k |-> "ZoneNamesRequest", zone_number |-> ALL])
    [] kind = "ability" -> Ext([k |-> "AcAbilityRequest", ac_number |-> ALL])
    [] kind = "acstatus" -> C0([k |-> "AcStatusRequest"])
    [] kind = "timer" -> C0([k |-> "AcTimerStatusRequest"])
    [] kind = "zonestatus" -> C0([k |-> IF PROTO = "at4" THEN "GroupStatusRequest" ELSE "ZoneStatusRequest"])

HSK == <<"version", "names", "ability", "acstatus", "timer", "zonestatus">>

-----------------------------------------------------------------------------
T(kind, pc, arg) == [kind |-> kind, pc |-> pc, arg |-> arg, hops |-> 0, wake |-> INF, cid |-> 0]

S0 == [state |-> 0,               \* 0 CLOSED, 1 CONNECTING, 2..7 INIT_k (request k-1 outstanding), 8 CONNECTED
       initialised |-> FALSE, sopen |-> FALSE, sconn |-> FALSE, subscribed |-> FALSE, shutDone |-> FALSE,
       hbTasks |-> <<>>, hbSub |-> FALSE, pollTask |-> None, resp |-> FALSE, gresp |-> FALSE,
       inbox |-> <<>>, reader |-> None,
       subs |-> {},              \* callbacks subscribed: "A" all updates of AC 0, "S" its AC state, "Z" zone 0, "T" the AirTouch
       objAc |-> "none", objZone |-> "none", objTimer |-> "none", objVer |-> "none",   \* which report each part of the object model holds
       squeue |-> <<>>,          \* commands the socket holds for a down link: [id, msg, expiry]
       everInit |-> FALSE,
       task |-> <<>>, ready |-> <<>>, running |-> None, batch |-> 0,
       now |-> 0, nenv |-> 0, nframes |-> 0, iters |-> 0, calls |-> 0]

Init == S = S0 /\ mon = CC!CS0(PROTO) /\ script = <<>>

NT(s) == Len(s.task)
Tasks(s) == 1..NT(s)
Ev(s, e) == [e EXCEPT !.t = s.now * U]
R(s, out) == [s |-> s, out |-> out]

Spawn(s, kind, pc, arg) ==
  [s EXCEPT !.task = Append(@, T(kind, pc, arg)), !.ready = Append(@, NT(s) + 1)]
SetPc(s, t, p) == [s EXCEPT !.task[t].pc = p]
Cont(s, t) == [s EXCEPT !.running = t]
Stop(s) == [s EXCEPT !.running = None]
Done(s, t) == Stop(SetPc(s, t, "done"))
Alive(s, t) == t # None /\ s.task[t].pc # "done"

Hops(s, t, nextpc) ==
  { [s EXCEPT !.task[t].pc = nextpc, !.task[t].hops = h - 1, !.ready = Append(@, t), !.running = None] : h \in 1..H }
\* an await of _notify_subscribers: suspends only when there is something to notify
NotifyAwait(s, t, nextpc) == IF Notifies THEN Hops(s, t, nextpc) ELSE {Cont(SetPc(s, t, nextpc), t)}

\* socket.send(request) from inside a handler: written at once when connected; raises NotOpenError when
\* the socket is closed (the exception ends the handler: _notify_subscribers logs it)
TxEv(s, kind) == Ev(s, [e |-> "txframe", t |-> 0, c |-> 0, ok |-> TRUE, alts |-> <<Req(kind)>>, failed |-> FALSE, nw |-> 1,
                         to |-> 128, from |-> 176, pid |-> 0, type |-> 0])
Send(s, kind) == IF s.sopen /\ s.sconn THEN <<TxEv(s, kind)>> ELSE <<>>

Cancel(s, t) == [s EXCEPT !.task[t].pc = "done", !.task[t].wake = INF]

SetToSeqS(X) == LET RECURSIVE F(_)
                    F(Y) == IF Y = {} THEN <<>> ELSE LET m == CHOOSE m \in Y : \A y \in Y : TLCFP(m) <= TLCFP(y) IN <<m>> \o F(Y \ {m})
                IN F(X)
SetToSeqI(X) == LET RECURSIVE F(_)
                    F(Y) == IF Y = {} THEN <<>> ELSE LET m == Min(Y) IN <<m>> \o F(Y \ {m})
                IN F(X)


-----------------------------------------------------------------------------
\* subscribers: who is called for a frame that changes the part of the model it concerns (an AC's
\* full subscribers also hear about its zones); the object model remembers which report it holds
SubTarget(w) == CASE w = "A" -> "ac:0" [] w = "S" -> "ac:0" [] w = "Z" -> "zone:0" [] OTHER -> "airtouch"
SubKind(w)   == CASE w = "A" -> "ac" [] w = "S" -> "ac_state" [] w = "Z" -> "zone" [] OTHER -> "airtouch"
Part(f) == CASE f \in {"acstatus", "acstatus2"} -> "objAc" [] f \in {"zonestatus", "zonestatus2"} -> "objZone"
             [] f = "timer" -> "objTimer" [] f \in {"version", "version2"} -> "objVer" [] OTHER -> "none"
Changes(s, f) == Part(f) # "none" /\ s[Part(f)] # f
Heard(s, f) == IF ~Changes(s, f) THEN {}
               ELSE CASE Part(f) = "objAc" -> s.subs \cap {"A", "S"}
                      [] Part(f) = "objTimer" -> s.subs \cap {"A", "S"}
                      [] Part(f) = "objZone" -> s.subs \cap (IF F_ZONE2AC THEN {"A", "Z"} ELSE {"Z"})   \* (FALSE: the AC relay is missing - sensitivity)
                      [] OTHER -> s.subs \cap {"T"}
Cbs(s, f) == LET q == SetToSeqS(Heard(s, f))
             IN [i \in 1..Len(q) |-> Ev(s, [e |-> "cb", t |-> 0, who |-> q[i], id |-> 0])]
Hold(s, f) == IF Part(f) = "none" THEN s ELSE [s EXCEPT ![Part(f)] = f]

Seg(s, t) ==
  LET me == s.task[t]
      pc == me.pc
  IN
  CASE pc = "I0" ->       \* init(): state, subscribe, open socket
        LET s1 == [s EXCEPT !.state = 1, !.subscribed = TRUE, !.sopen = TRUE,
                            \* the AC and zone objects are built anew by the handshake: their subscribers go with the old ones
                            !.subs = @ \cap {"T"}, !.objAc = "none", !.objZone = "none", !.objTimer = "none"]
        IN IF s.initialised THEN {R(Done(s1, t), <<Ev(s, [e |-> "retapi", t |-> 0, id |-> me.cid, res |-> "ok", val |-> TRUE, method |-> "init"])>>)}
           ELSE {R(Stop([s1 EXCEPT !.task[t].pc = "I1", !.task[t].wake = s.now + INIT_T]), <<>>)}
  [] pc = "I2" ->         \* wait_for returned (event set or 5 s elapsed)
        {R(Done(s, t), <<Ev(s, [e |-> "retapi", t |-> 0, id |-> me.cid, res |-> "ok", val |-> s.initialised, method |-> "init"])>>)}
  \* ---------------------------------------------------------------- shutdown()
  [] pc = "Z0" ->
        LET s1 == [s EXCEPT !.state = 0, !.initialised = FALSE]
        IN IF Alive(s1, s1.pollTask)
           THEN { R(r, <<>>) : r \in Hops(Cancel(s1, s1.pollTask), t, "Z1") }     \* cancel + await the poll task
           ELSE {R(Cont(SetPc(s1, t, "Z1"), t), <<>>)}
  [] pc = "Z1" ->         \* heartbeat manager stop(): cancel and await both tasks, unsubscribe
        IF s.hbTasks = <<>> THEN {R(Cont(SetPc(s, t, "Z2"), t), <<>>)}
        ELSE LET s1 == [Cancel(Cancel(s, s.hbTasks[1]), s.hbTasks[2]) EXCEPT !.hbTasks = <<>>, !.hbSub = FALSE]
             IN { R(r, <<>>) : r \in Hops(s1, t, "Z2") }
  [] pc = "Z2" ->         \* socket.close(): the link goes down, the read loop ends at EOF
        LET wasConn == s.sconn
            s1 == [s EXCEPT !.sopen = FALSE, !.sconn = FALSE, !.inbox = <<>>]
            o  == IF wasConn THEN <<Ev(s, [e |-> "cclose", t |-> 0, c |-> 0])>> ELSE <<>>
        IN IF wasConn THEN { R(r, o) : r \in Hops(s1, t, "Z3") } ELSE {R(Cont(SetPc(s1, t, "Z3"), t), o)}
  [] pc = "Z3" ->
        {R(Done([s EXCEPT !.shutDone = TRUE], t), <<Ev(s, [e |-> "retapi", t |-> 0, id |-> me.cid, res |-> "ok", val |-> <<>>, method |-> "shutdown"])>>)}
  \* ---------------------------------------------------------------- _connection_changed(connected)
  [] pc = "CC" ->
        IF ~s.subscribed THEN {R(Done(s, t), <<>>)}
        ELSE IF me.arg /\ s.state = 1
        THEN {R(Done([s EXCEPT !.state = 2], t), Send(s, "version"))}
        ELSE IF me.arg
        THEN {R(Done(s, t), Send(s, "acstatus") \o Send(s, "zonestatus"))}
        ELSE {R(Done(s, t), <<>>)}
  \* ---------------------------------------------------------------- read loop: _message_received per frame
  [] pc = "R0" ->
        IF ~s.sconn \/ s.reader # t THEN {R(Done(s, t), <<>>)}
        ELSE IF s.inbox = <<>> THEN {R(Stop(SetPc(s, t, "Rwait")), <<>>)}
        ELSE LET f == Head(s.inbox)
                 s1 == [s EXCEPT !.inbox = Tail(@), !.task[t].arg = f]
                 \* the heartbeat manager's own subscriber: any console-version message is a response
                 s2 == IF f \in {"version", "version2"} /\ s.hbSub THEN [s1 EXCEPT !.resp = TRUE] ELSE s1
                 dv == <<Ev(s, [e |-> "deliver", t |-> 0, rd |-> RxAlts(f)[1]])>>   \* the socket hands the frame to its subscribers
                 k  == s.state - 1     \* handshake request outstanding (1..6) when state in 2..7
                 answers == s.state \in 2..7 /\ (f = HSK[k] \/ (f = "zonestatus2" /\ k = 6) \/ (f = "acstatus2" /\ k = 4))
             IN IF answers
                THEN IF k \in {1, 2, 3}
                     THEN {R(Cont(SetPc([Hold(s2, f) EXCEPT !.state = @ + 1], t, "R0"), t), dv \o Cbs(s2, f) \o Send(s2, HSK[k + 1]))}
                     ELSE { R(r, dv \o Cbs(s2, f)) : r \in NotifyAwait(Hold(s2, f), t, "Rh") }    \* await self._process_*_message(...)
                ELSE IF s.state = 8 /\ f \in {"acstatus", "acstatus2", "timer", "zonestatus", "zonestatus2", "version", "version2"}
                THEN LET s3 == IF PROTO = "at4" /\ f \in {"zonestatus", "zonestatus2"} THEN [s2 EXCEPT !.gresp = TRUE] ELSE s2
                     IN { R(r, dv \o Cbs(s3, f)) : r \in NotifyAwait(Hold(s3, f), t, "R0") }
                ELSE {R(Cont(SetPc(s2, t, "R0"), t), dv)}
  [] pc = "Rh" ->         \* after the awaited status update of handshake step 4, 5 or 6
        LET f == me.arg
            k == IF f \in {"acstatus", "acstatus2"} THEN 4 ELSE IF f = "timer" THEN 5 ELSE 6
        IN IF k < 6
           THEN {R(Cont(SetPc([s EXCEPT !.state = k + 2], t, "R0"), t), Send(s, HSK[k + 1]))}
           ELSE IF F_RECHECK /\ s.state # 7 THEN {R(Cont(SetPc(s, t, "R0"), t), <<>>)}    \* shutdown() ran meanwhile
           ELSE \* CONNECTED: start the heartbeat manager (and the AT4 poll task), set the initialised event
                LET s1 == [s EXCEPT !.state = 8]
                    s2 == IF s1.hbTasks = <<>>
                          THEN LET a == Spawn(s1, "hbloop", "B0", 0)
                                   b == Spawn(a, "hbwatch", "W0", 0)
                               IN [b EXCEPT !.hbTasks = <<NT(a), NT(b)>>, !.hbSub = TRUE, !.resp = FALSE]
                          ELSE s1
                    s3 == IF PROTO = "at4" THEN LET c == Spawn(s2, "poll", "P0", 0) IN [c EXCEPT !.pollTask = NT(c)] ELSE s2
                    \* wait_for(initialised.wait()) of a pending init() wakes
                    s4 == [s3 EXCEPT !.initialised = TRUE, !.everInit = TRUE,
                                     !.task = [u \in 1..Len(s3.task) |-> IF s3.task[u].pc = "I1" THEN [s3.task[u] EXCEPT !.pc = "I2", !.wake = INF] ELSE s3.task[u]],
                                     !.ready = @ \o SetToSeqI({u \in 1..Len(s3.task) : s3.task[u].pc = "I1"})]
                IN {R(Cont(SetPc(s4, t, "R0"), t), <<>>)}
  \* ---------------------------------------------------------------- a public control call
  \* (what is valid and what the frame says is the oracle's business: the expectation the monitor
  \* computed at the call is taken over; the model adds WHEN things happen: refusal, not-open error,
  \* immediate write, or holding for a down link with the 30 s lifetime of an idempotent command)
  [] pc = "X0" ->
        LET ix == {i \in 1..Len(mon.cmds) : mon.cmds[i].id = me.cid}
            ex == mon.cmds[Min(ix)].exp
            ret(res) == Ev(s, [e |-> "retapi", t |-> 0, id |-> me.cid, res |-> res, val |-> <<>>, method |-> me.arg.method])
        IN IF ix = {} THEN {R(Done(s, t), <<ret("ok")>>)}
           ELSE IF CC!Eq(ex.reject, TRUE) THEN {R(Done(s, t), <<ret("ValueError")>>)}
           ELSE IF ~s.sopen THEN {R(Done(s, t), <<ret("NotOpenError")>>)}
           ELSE IF CC!Eq(ex.reject, "ANY") \/ Len(ex.msgs) = 0 THEN {R(Done(s, t), <<ret("ok")>>)}
           ELSE LET m  == ex.msgs[1]
                    tx == Ev(s, [e |-> "txframe", t |-> 0, c |-> 0, ok |-> TRUE, alts |-> <<m>>, failed |-> FALSE, nw |-> 1,
                                 to |-> 128, from |-> 176, pid |-> 0, type |-> 0])
                IN IF s.sconn THEN {R(Done(s, t), <<tx, ret("ok")>>)}
                   ELSE {R(Done([s EXCEPT !.squeue = Append(@, [id |-> me.cid, msg |-> m, expiry |-> s.now + 6])], t), <<ret("ok")>>)}
  \* ---------------------------------------------------------------- heartbeat loop: gather(sleep(interval), send)
  [] pc = "B0" ->
        {R(Stop([s EXCEPT !.task[t].pc = "Bsleep", !.task[t].wake = s.now + HB_I]), Send(s, "version"))}
  \* ---------------------------------------------------------------- heartbeat watchdog
  [] pc = "W0" ->         \* (re-)enter `async with asyncio.timeout(...)`: armed, or not armed at all (original code)
        {R(Stop([s EXCEPT !.task[t].pc = "Wwait", !.task[t].wake = IF F_WATCHDOG THEN s.now + HB_T ELSE INF]), <<>>)}
  [] pc = "Wresp" ->      \* response event was set: push the deadline back
        {R(Stop([s EXCEPT !.resp = FALSE, !.task[t].pc = "Wwait", !.task[t].wake = s.now + HB_T]), <<>>)}
  [] pc = "Wtimeout" ->   \* TimeoutError: reset the link if connected, then loop
        IF s.sconn
        THEN { R(r, <<Ev(s, [e |-> "cclose", t |-> 0, c |-> 0])>>) : r \in Hops([s EXCEPT !.sconn = FALSE, !.inbox = <<>>], t, "W0") }
        ELSE {R(Cont(SetPc(s, t, "W0"), t), <<>>)}
  \* ---------------------------------------------------------------- AT4 group-status poll
  [] pc = "P0" ->
        {R(Stop([s EXCEPT !.task[t].pc = "Pwait", !.task[t].wake = s.now + POLL_I]), <<>>)}
  [] pc = "Presp" ->
        {R(Stop([s EXCEPT !.gresp = FALSE, !.task[t].pc = "Pwait", !.task[t].wake = s.now + POLL_I]), <<>>)}
  [] pc = "Ptimeout" ->
        {R(Cont(SetPc(s, t, "P0"), t), Send(s, "zonestatus"))}
  [] OTHER -> {}

-----------------------------------------------------------------------------
RECURSIVE Fold(_, _)
Fold(m, evs) == IF evs = <<>> THEN m ELSE Fold(CC!CStep(m, Head(evs)), Tail(evs))
Apply(r) == S' = r.s /\ mon' = Fold(mon, r.out) /\ UNCHANGED script

Boundary(s) == s.running = None /\ s.batch = 0
Sleepers(s) == {t \in Tasks(s) : s.task[t].pc \in {"I1", "Bsleep", "Wwait", "Pwait"} /\ s.task[t].wake < INF}
Due(s) == {t \in Sleepers(s) : s.task[t].wake <= s.now}
\* event waiters whose event is set
EvDue(s) == {t \in Tasks(s) : (s.task[t].pc = "Wwait" /\ s.resp) \/ (s.task[t].pc = "Pwait" /\ s.gresp)
                              \/ (s.task[t].pc = "Rwait" /\ s.inbox # <<>> /\ s.sconn)
                              \/ (s.task[t].pc = "Rwait" /\ ~s.sconn)}
Quiet(s) == Boundary(s) /\ s.ready = <<>> /\ Due(s) = {} /\ EvDue(s) = {}
MinWake(s) == Min({s.task[t].wake : t \in Sleepers(s)})

WakePc(p, timeout) == CASE p = "I1" -> "I2" [] p = "Bsleep" -> "B0"
                        [] p = "Wwait" -> IF timeout THEN "Wtimeout" ELSE "Wresp"
                        [] p = "Pwait" -> IF timeout THEN "Ptimeout" ELSE "Presp"
                        [] p = "Rwait" -> "R0" [] OTHER -> p

StartIter ==
  /\ Boundary(S) /\ (S.ready # <<>> \/ Due(S) # {} \/ EvDue(S) # {})
  /\ LET due == Due(S)
         evd == EvDue(S) \ due
         s1  == [S EXCEPT !.task = [t \in Tasks(S) |->
                                      IF t \in due THEN [S.task[t] EXCEPT !.pc = WakePc(@, TRUE), !.wake = INF]
                                      ELSE IF t \in evd THEN [S.task[t] EXCEPT !.pc = WakePc(@, FALSE), !.wake = INF]
                                      ELSE S.task[t]],
                          !.ready = @ \o SetToSeqI(due \cup evd)]
     IN S' = [s1 EXCEPT !.batch = Len(s1.ready), !.iters = IF Record THEN @ + 1 ELSE @]
  /\ UNCHANGED <<mon, script>>

RunTask ==
  \/ /\ S.running # None
     /\ IF S.task[S.running].pc = "done" THEN Apply(R(Stop(S), <<>>))
        ELSE \E r \in Seg(S, S.running) : Apply(r)
  \/ /\ S.running = None /\ S.batch > 0
     /\ LET t  == Head(S.ready)
            s1 == [S EXCEPT !.ready = Tail(@), !.batch = @ - 1]
        IN IF S.task[t].pc = "done" THEN Apply(R(s1, <<>>))
           ELSE IF S.task[t].hops > 0 THEN Apply(R([s1 EXCEPT !.task[t].hops = @ - 1, !.ready = Append(@, t)], <<>>))
           ELSE Apply(R(Cont(s1, t), <<>>))

-----------------------------------------------------------------------------
Log(op) == script' = IF Record
                     THEN (IF S.iters > 0 THEN Append(script, [op |-> "step", k |-> S.iters]) ELSE script) \o <<op>>
                     ELSE script
\* PostInit = TRUE spends the budget of environment steps after the first initialisation only: up to
\* there the environment walks the one straight path (init, link up, the six answers in order)
Warmup == PostInit /\ ~S.everInit
EnvStep(s1, out, op) ==
  /\ Boundary(S) /\ S.nenv < MaxEnv
  /\ S' = [s1 EXCEPT !.nenv = IF Warmup THEN @ ELSE @ + 1, !.iters = 0]
  /\ mon' = Fold(mon, out)
  /\ Log(op)

Busy(s, kinds) == \E t \in Tasks(s) : s.task[t].kind \in kinds /\ s.task[t].pc # "done"

CallInit ==
  /\ S.state = 0 /\ ~Busy(S, {"init", "shut"}) /\ NT(S) < MaxTask
  /\ LET s1 == Spawn(S, "init", "I0", 0)
         id == S.calls + 1
     IN EnvStep([s1 EXCEPT !.calls = id, !.task[NT(s1)].cid = id, !.shutDone = FALSE],
                <<Ev(S, [e |-> "callapi", t |-> 0, id |-> id, target |-> "airtouch", method |-> "init", args |-> <<>>, tk |-> "airtouch", tn |-> 0]),
                  Ev(S, [e |-> "callopen", t |-> 0])>>,
                [op |-> "call", method |-> "init"])

CallShutdown ==
  /\ (S.state # 0 \/ S.sopen) /\ ~Busy(S, {"shut"}) /\ NT(S) < MaxTask
  /\ LET s1 == Spawn(S, "shut", "Z0", 0)
         id == S.calls + 1
     IN EnvStep([s1 EXCEPT !.calls = id, !.task[NT(s1)].cid = id],
                <<Ev(S, [e |-> "callapi", t |-> 0, id |-> id, target |-> "airtouch", method |-> "shutdown", args |-> <<>>, tk |-> "airtouch", tn |-> 0])>>,
                [op |-> "call", method |-> "shutdown"])

\* the socket establishes the connection: connection-changed callback, a fresh read loop
ConnUp ==
  /\ S.sopen /\ ~S.sconn /\ NT(S) + 2 <= MaxTask
  /\ LET a == Spawn([S EXCEPT !.sconn = TRUE], "cc", "CC", TRUE)
         b == Spawn(a, "reader", "R0", 0)
         live == SelectSeq(S.squeue, LAMBDA q : S.now < q.expiry)
         \* the socket drains what it held (unexpired) as soon as the link is up
         txs == [i \in 1..Len(live) |-> Ev(S, [e |-> "txframe", t |-> 0, c |-> 0, ok |-> TRUE, alts |-> <<live[i].msg>>, failed |-> FALSE,
                                                 nw |-> 1, to |-> 128, from |-> 176, pid |-> 0, type |-> 0])]
     IN EnvStep([b EXCEPT !.reader = NT(b), !.squeue = <<>>], <<Ev(S, [e |-> "connok", t |-> 0, c |-> 0])>> \o txs, [op |-> "conn_up"])

\* the link is lost (only judged after initialisation: C09 assumes an answering console)
ConnDown ==
  /\ S.sconn /\ S.state = 8 /\ NT(S) < MaxTask
  /\ LET a == Spawn([S EXCEPT !.sconn = FALSE, !.inbox = <<>>], "cc", "CC", FALSE)
     IN EnvStep(a, <<Ev(S, [e |-> "lost", t |-> 0, c |-> 0])>>, [op |-> "conn_down"])

Deliver(kind) ==
  /\ S.sconn /\ S.nframes < MaxFrames /\ Len(S.inbox) < 2
  /\ EnvStep([S EXCEPT !.inbox = Append(@, kind), !.nframes = @ + 1],
             <<Ev(S, [e |-> "rxframe", t |-> 0, c |-> 0, alts |-> RxAlts(kind), soft |-> FALSE])>>,
             [op |-> "deliver", kind |-> kind,
              b |-> Frame(PROTO, 176, IF PL[kind][1] = 31 THEN 144 ELSE 128, 1, PL[kind][1], PL[kind][2])])

\* public control calls on the objects a completed init() handed out: an accepted AC command, a
\* refused damper value, the update check
CmdTable == <<[target |-> "ac:0", method |-> "set_power", args |-> <<[enum |-> "AcPowerControl", name |-> "TURN_ON"]>>, tk |-> "ac", tn |-> 0],
              [target |-> "zone:0", method |-> "set_damper_percentage", args |-> <<150>>, tk |-> "zone", tn |-> 0],
              [target |-> "airtouch", method |-> "check_for_updates", args |-> <<>>, tk |-> "airtouch", tn |-> 0]>>
CallCmd(k) ==
  /\ Cmds /\ S.everInit /\ (S.state = 8 \/ (S.state = 0 /\ ~S.sopen /\ k = 3)) /\ NT(S) < MaxTask
  /\ LET c  == CmdTable[k]
         s1 == Spawn(S, "cmd", "X0", c)
         id == S.calls + 1
     IN EnvStep([s1 EXCEPT !.calls = id, !.task[NT(s1)].cid = id],
                <<Ev(S, [e |-> "callapi", t |-> 0, id |-> id, target |-> c.target, method |-> c.method, args |-> c.args,
                         kwargs |-> <<>>, tk |-> c.tk, tn |-> c.tn])>>,
                [op |-> "call", target |-> c.target, method |-> c.method, args |-> c.args])

Subscribe(w) ==
  /\ Subs /\ w \notin S.subs /\ (w = "T" \/ S.state = 8)
  /\ EnvStep([S EXCEPT !.subs = @ \cup {w}],
             <<Ev(S, [e |-> "subapi", t |-> 0, who |-> w, target |-> SubTarget(w), kind |-> SubKind(w), incb |-> FALSE])>>,
             [op |-> "sub", who |-> w, target |-> SubTarget(w), kind |-> SubKind(w)])
Unsubscribe(w) ==
  /\ Subs /\ w \in S.subs
  /\ EnvStep([S EXCEPT !.subs = @ \ {w}],
             <<Ev(S, [e |-> "unsubapi", t |-> 0, who |-> w, target |-> SubTarget(w), kind |-> SubKind(w), incb |-> FALSE])>>,
             [op |-> "unsub", who |-> w, target |-> SubTarget(w), kind |-> SubKind(w)])

Tick(dt) ==
  /\ Quiet(S)
  /\ IF Sleepers(S) = {} THEN TRUE ELSE S.now + dt <= MinWake(S)
  /\ EnvStep([S EXCEPT !.now = @ + dt], <<>>, [op |-> "advance", by |-> dt * U])

TickToTimer ==
  /\ Quiet(S) /\ Sleepers(S) # {} /\ MinWake(S) > S.now
  /\ EnvStep([S EXCEPT !.now = MinWake(S)], <<>>, [op |-> "advance", by |-> (MinWake(S) - S.now) * U])

Checkpoint ==
  /\ Quiet(S) /\ S.nenv > 0
  /\ EnvStep(S, <<Ev(S, [e |-> "quiesce", t |-> 0])>>, [op |-> "quiesce"])

Kinds == {"version", "version2", "names", "ability", "acstatus", "acstatus2", "timer", "zonestatus", "zonestatus2"}

\* the next answer of the handshake, or (initialised) any status / version frame; foreign frames at any time
Useful(kind) == \/ (S.state \in 2..7 /\ kind = HSK[S.state - 1])
                \/ (S.state = 8 /\ kind \in {"acstatus2", "zonestatus2", "version", "acstatus", "zonestatus"})
                \/ (S.state = 8 /\ Subs /\ kind = "version2")
                \/ (S.state \in 2..7 /\ kind \in {"acstatus2", "zonestatus2"} /\ S.state < 5)    \* unsolicited, early

Env == IF Warmup
       THEN CallInit \/ ConnUp \/ (S.state \in 2..7 /\ S.inbox = <<>> /\ Deliver(HSK[S.state - 1]))
       ELSE \/ CallInit \/ CallShutdown \/ ConnUp \/ ConnDown
            \/ \E k \in 1..3 : CallCmd(k)
            \/ \E w \in {"A", "S", "Z", "T"} : Subscribe(w) \/ Unsubscribe(w)
            \/ \E k \in Kinds : Useful(k) /\ Deliver(k)
            \/ \E dt \in Dts : Tick(dt)
            \/ TickToTimer \/ Checkpoint

Next == StartIter \/ RunTask \/ Env
Spec == Init /\ [][Next]_vars

-----------------------------------------------------------------------------
ContractHolds == mon.viol = <<>>

\* C15: after shutdown() has returned and the loop is quiet, nothing of the client is left
ShutdownIsFinal ==
  (Quiet(S) /\ S.shutDone /\ ~Busy(S, {"shut", "init"}))
     => /\ ~S.sopen           \* (the private state variable may be left at an INIT_k value by a handler that
        /\ ~S.initialised      \*  resumed after shutdown: not observable, the next init() overwrites it)
        /\ ~Busy(S, {"hbloop", "hbwatch", "poll"})
        /\ Sleepers(S) = {}

\* heartbeat machinery exists exactly while initialised
HeartbeatWhileReady == (Quiet(S) /\ S.state = 8) => (Len(S.hbTasks) = 2 /\ \A i \in 1..2 : Alive(S, S.hbTasks[i]))

Bound == NT(S) <= MaxTask
EmitScript == (Record /\ S.nenv = MaxEnv /\ Quiet(S)) => PrintT(<<"SCRIPT", script>>)
=============================================================================
