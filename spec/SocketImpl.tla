----------------------------- MODULE SocketImpl -----------------------------
(***************************************************************************)
(* Implementation-shaped model (L2) of pyairtouch/comms/socket.py on an    *)
(* asyncio event loop.                                                     *)
(*                                                                         *)
(*  - one task-table entry per coroutine started as a task; one `pc` label *)
(*    per code segment between two awaits; sub-coroutines (_disconnect,    *)
(*    reset_connection, _drain_message_queue) are called through `stk`;    *)
(*  - `ready` is the loop's FIFO of handles (task wake-ups and             *)
(*    connection_lost callbacks), `batch` the number of handles that       *)
(*    belong to the current loop iteration, `running` the task being       *)
(*    executed.  A segment ending in an await that does not suspend in the *)
(*    real library keeps `running`;                                        *)
(*  - library constructs that take an unspecified number of loop turns     *)
(*    (as_completed, shield, timeout) re-queue the task for 1..H turns;    *)
(*  - the environment (API calls started as tasks, connect resolution,     *)
(*    data, EOF, reset, write faults, clock) acts only between loop        *)
(*    iterations, as real I/O does.                                        *)
(*                                                                         *)
(* Every action emits the external events it causes; `mon` is the state of *)
(* the L1 contract monitor (SocketContract!Step) fed with them.  The       *)
(* refinement claim checked by TLC is the invariant  mon.viol = <<>>       *)
(* together with the structural invariants below.                          *)
(*                                                                         *)
(* The constants F_* select the repaired (TRUE) or the original (FALSE)    *)
(* behaviour of each defect found in the pinned tree, so that every        *)
(* finding stays reproducible in the model:                                *)
(*   F_ENQ   _enqueue_message appends the submitted entry (not the head)   *)
(*   F_DRAIN encode errors handled per message inside the drain loop       *)
(*   F_ONE   a single connection attempt in flight (_schedule_connect)     *)
(*   F_CLOSE close() marks closed first, cancels the pending attempt;      *)
(*           _connect/_schedule_connect refuse to work when closed         *)
(*   F_CAP   a message whose write is in progress still counts towards the *)
(*           queue capacity (it returns to the queue if the write fails)   *)
(*   F_WAITCLOSE _disconnect waits for wait_closed() even when the writer   *)
(*           is already closing (FALSE: it does not - not a defect of the  *)
(*           pinned tree; shows that overlapping resets are exercised)     *)
(*   F_REOPEN close() forgets the attempt it cancelled (a cancelled task   *)
(*           finishes on a later loop turn only: an open_socket() right    *)
(*           after close() would take it for an attempt in flight)         *)
(*   F_SOLO  every drain call runs its own loop (FALSE: a call that finds   *)
(*           a write in flight returns and leaves the queue to that loop - *)
(*           not a defect of the pinned tree; a send() cancelled by its    *)
(*           caller while its drain() is suspended then strands the queue) *)
(*   F_CLOCK the drain reads the clock for every entry (FALSE: once before *)
(*           the loop - not a defect of the pinned tree; kept to show that *)
(*           the stall model exercises the expiry clause)                  *)
(*                                                                         *)
(* Stalls = TRUE adds back-pressure: the console stops reading, the        *)
(* transport pauses the protocol (immediately, or with the next write),    *)
(* drain() suspends its callers until the stall ends or the connection     *)
(* does (a lost connection fails them, a connection closed by the client   *)
(* lets them return normally - asyncio FlowControlMixin.connection_lost).  *)
(***************************************************************************)
EXTENDS Naturals, Integers, Sequences, FiniteSets, FiniteSetsExt, TLC, TLCExt

CONSTANTS MaxConn, MaxTask, MaxMsg, MaxEnv, H, ConnSubs, MsgSubs, SubSends, QCap,
          F_ENQ, F_DRAIN, F_ONE, F_CLOSE, F_CAP, F_CLOCK, F_WAITCLOSE, F_REOPEN, F_SOLO, Stalls, Record, Kinds, Policies

C == INSTANCE SocketContract WITH QMAX <- QCap

RETRY == 4            \* _CONNECT_RETRY_DELAY = 2 s, in half seconds
Dts   == {1, 2, 4, 60}   \* clock advances offered to the environment: 0.5 s, 1 s, 2 s, 30 s

VARIABLES S, mon, script
vars == <<S, mon, script>>

None == 0

T(kind, pc, arg) == [kind |-> kind, pc |-> pc, stk |-> <<>>, arg |-> arg, hops |-> 0, wake |-> 0, cid |-> 0]

S0 == [isOpen |-> FALSE, isConn |-> FALSE, reader |-> None, writer |-> None, queue |-> <<>>,
       connTask |-> None, inflight |-> 0,
       conn |-> <<>>, lostDone |-> <<>>, rx |-> <<>>, eof |-> <<>>, fault |-> <<>>,
       stalled |-> <<>>, armStall |-> <<>>, closeWait |-> <<>>,
       task |-> <<>>, ready |-> <<>>, running |-> None, batch |-> 0,
       now |-> 0, nmsg |-> 0, nenv |-> 0, iters |-> 0, calls |-> 0]

Init == S = S0 /\ mon = C!S0 /\ script = <<>>

NT(s) == Len(s.task)
NC(s) == Len(s.conn)
Tasks(s) == 1..NT(s)
Cn(s) == 1..NC(s)

Ev(s, e) == [e EXCEPT !.t = s.now * 500]

\* ---------------------------------------------------------------------------
\* helpers on the state record.  r = [s |-> state, out |-> events]
R(s, out) == [s |-> s, out |-> out]

Spawn(s, kind, pc, arg, wake) ==
  LET id == NT(s) + 1
      t  == [T(kind, pc, arg) EXCEPT !.wake = wake]
  IN [s EXCEPT !.task = Append(@, t),
               !.ready = IF pc = "Ksleep" THEN @ ELSE Append(@, <<"t", id>>)]

SetPc(s, t, p) == [s EXCEPT !.task[t].pc = p]
Push(s, t, retpc, p) == [s EXCEPT !.task[t].stk = <<retpc>> \o @, !.task[t].pc = p]
Ret(s, t) == [s EXCEPT !.task[t].pc = Head(s.task[t].stk), !.task[t].stk = Tail(s.task[t].stk)]
Cont(s, t) == [s EXCEPT !.running = t]
Stop(s) == [s EXCEPT !.running = None]
Done(s, t) == Stop(SetPc(s, t, "done"))

\* suspend for 1..H loop turns, then continue at nextpc
Hops(s, t, nextpc) ==
  { [s EXCEPT !.task[t].pc = nextpc, !.task[t].hops = h - 1,
              !.ready = Append(@, <<"t", t>>), !.running = None] : h \in 1..H }

Sleepers(s) == {t \in Tasks(s) : s.task[t].pc = "Ksleep"}
MinWake(s) == Min({s.task[t].wake : t \in Sleepers(s)})

\* _schedule_connect(delay) as executed by task `me`
ScheduleConnect(s, me, delayed) ==
  LET blocked == \/ (F_CLOSE /\ ~s.isOpen)
                 \/ (F_ONE /\ s.connTask # None /\ s.task[s.connTask].pc # "done" /\ s.connTask # me)
  IN IF blocked THEN s
     ELSE LET s1 == Spawn(s, "connect", IF delayed THEN "Ksleep" ELSE "K1", 0,
                          IF delayed THEN s.now + RETRY ELSE 0)
          IN [s1 EXCEPT !.connTask = NT(s1)]

\* task.cancel() of a task that is not running: it ends at its current await (its handle, if any,
\* stays in `ready` and is skipped).  A connection attempt that is cancelled while pending, or
\* after the connection was made but before _connect resumed, is cleaned up by
\* loop.create_connection itself (the new transport is closed).
Cancel(s, t) ==
  LET p  == s.task[t].pc
      c  == s.task[t].arg
      \* the task only ENDS when the loop runs it again (CancelledError at its await): until then it
      \* is "not done" for whoever looks at the handle
      s1 == IF p \in {"Ksleep", "K2wait", "K3"}
            THEN [s EXCEPT !.task[t].pc = "Kcan", !.ready = Append(@, <<"t", t>>)]
            ELSE [s EXCEPT !.task[t].pc = "done"]
  IN IF p = "K2wait"
     THEN R([s1 EXCEPT !.conn[c] = "cancelled"], <<Ev(s, [e |-> "cancelled", t |-> 0, c |-> c - 1])>>)
     ELSE IF p = "K3"
     THEN R([s1 EXCEPT !.conn[c] = "cclosed", !.ready = Append(@, <<"lost", c>>)],
            <<Ev(s, [e |-> "cclose", t |-> 0, c |-> c - 1])>>)
     ELSE R(s1, <<>>)

ClosedWaiters(s, c) == {t \in Tasks(s) : s.task[t].pc = "D0wait" /\ s.task[t].arg = c}
DataWaiters(s, c)   == {t \in Tasks(s) : s.task[t].pc = "L1wait" /\ s.task[t].arg = c}
SetToSeq(X) == LET RECURSIVE F(_)
                   F(Y) == IF Y = {} THEN <<>> ELSE LET m == Min(Y) IN <<m>> \o F(Y \ {m})
               IN F(X)
Handles(X) == LET q == SetToSeq(X) IN [i \in 1..Len(q) |-> <<"t", q[i]>>]

RetSend(s, t, res) == Ev(s, [e |-> "retsend", t |-> 0, id |-> s.task[t].cid, res |-> res])
Notify(s, b) == IF ConnSubs THEN <<Ev(s, [e |-> "notify", t |-> 0, connected |-> b])>> ELSE <<>>

-----------------------------------------------------------------------------
\* One code segment of task t.  Returns a SET of results [s, out].
\* the connection ends: whatever its send buffer held is gone, nothing is stalled any more
EndStallEv(s, w) == IF s.stalled[w] THEN <<Ev(s, [e |-> "unstall", t |-> 0, c |-> w - 1, ended |-> TRUE])>> ELSE <<>>
DrainWaiters(s, c) == {t \in Tasks(s) : s.task[t].pc = "Rdrain" /\ s.task[t].arg.w = c}

Seg(s, t) ==
  LET me == s.task[t]
      pc == me.pc
  IN
  CASE pc = "open" ->      \* open_socket()
        IF ~s.isOpen
        THEN LET s1 == IF F_CLOSE THEN ScheduleConnect([s EXCEPT !.isOpen = TRUE], t, FALSE)
                       ELSE [ScheduleConnect(s, t, FALSE) EXCEPT !.isOpen = TRUE]
             IN {R(Done(s1, t), <<>>)}
        ELSE {R(Done(s, t), <<>>)}
  [] pc = "C0" ->          \* close()
        IF ~s.isOpen
        THEN IF me.kind = "closeopen"
             THEN {R(Cont(SetPc(s, t, "open"), t), <<Ev(s, [e |-> "retclose", t |-> 0]), Ev(s, [e |-> "callopen", t |-> 0])>>)}
             ELSE {R(Done(s, t), <<Ev(s, [e |-> "retclose", t |-> 0])>>)}
        ELSE IF F_CLOSE
        THEN LET s1 == [s EXCEPT !.isOpen = FALSE]
                 r0 == IF s1.connTask # None /\ s1.connTask # t /\ s1.task[s1.connTask].pc # "done"
                       THEN Cancel(s1, s1.connTask) ELSE R(s1, <<>>)
                 r  == IF F_REOPEN /\ s1.connTask # None /\ s1.connTask # t
                       THEN R([r0.s EXCEPT !.connTask = None], r0.out) ELSE r0
             IN {R(Cont(Push(r.s, t, "C2", "D0"), t), r.out)}
        ELSE {R(Cont(Push(s, t, "C1", "D0"), t), <<>>)}
  [] pc = "C1" ->          \* original code: is_open = False after the disconnect
        {R(Cont(SetPc([s EXCEPT !.isOpen = FALSE], t, "C2"), t), <<>>)}
  [] pc = "C2" ->
        IF me.kind = "closeopen"     \* one user coroutine: `await s.close(); s.open_socket()` - no turn in between
        THEN {R(Cont(SetPc(s, t, "open"), t), <<Ev(s, [e |-> "retclose", t |-> 0]), Ev(s, [e |-> "callopen", t |-> 0])>>)}
        ELSE {R(Done(s, t), <<Ev(s, [e |-> "retclose", t |-> 0])>>)}
  [] pc = "Kcan" ->        \* the cancelled attempt ends
        {R(Done(s, t), <<>>)}
  \* ------------------------------------------------------------ _disconnect
  [] pc = "D0" ->
        IF s.writer # None
        THEN LET w  == s.writer
                 cl == s.conn[w] \in {"up", "half"}
                 \* transport.close() with unsent data (a stalled link) completes only when the buffer has
                 \* drained: connection_lost, and with it wait_closed(), are deferred until the stall ends
                 df == cl /\ s.stalled[w]
                 s1 == IF df THEN [s EXCEPT !.conn[w] = "cclosed", !.closeWait[w] = TRUE, !.armStall[w] = FALSE]
                       ELSE IF cl THEN [s EXCEPT !.conn[w] = "cclosed", !.ready = Append(@, <<"lost", w>>),
                                                 !.stalled[w] = FALSE, !.armStall[w] = FALSE] ELSE s
                 o  == IF cl THEN (IF df THEN <<>> ELSE EndStallEv(s, w)) \o <<Ev(s, [e |-> "cclose", t |-> 0, c |-> w - 1])>> ELSE <<>>
             IN IF ~F_WAITCLOSE /\ ~cl /\ ~s1.lostDone[w]
                THEN {R(Cont(SetPc(s1, t, "D1"), t), o)}            \* (variant: a writer already closing is not waited for)
                ELSE IF s1.lostDone[w]
                THEN { R(r, o) : r \in Hops(s1, t, "D1") }          \* shield(): at least one turn
                ELSE { R(Stop([s1 EXCEPT !.task[t].pc = "D0wait", !.task[t].arg = w]), o) }
        ELSE {R(Cont(SetPc(s, t, "D1"), t), <<>>)}
  [] pc = "D1" ->
        LET s1 == [s EXCEPT !.isConn = FALSE, !.reader = None, !.writer = None]
        IN IF ConnSubs THEN { R(r, Notify(s, FALSE)) : r \in Hops(s1, t, "Dret") }
           ELSE {R(Cont(Ret(s1, t), t), <<>>)}
  [] pc = "Dret" -> {R(Cont(Ret(s, t), t), <<>>)}
  \* ------------------------------------------------------------ reset_connection
  [] pc = "X0" -> {R(Cont(Push(s, t, "X1", "D0"), t), <<>>)}
  [] pc = "X1" -> {R(Cont(Ret(ScheduleConnect(s, t, FALSE), t), t), <<>>)}
  \* ------------------------------------------------------------ _connect
  [] pc = "K1" ->
        IF s.isConn \/ (F_CLOSE /\ ~s.isOpen) THEN {R(Done(s, t), <<>>)}
        ELSE LET c  == NC(s) + 1
                 s1 == [s EXCEPT !.conn = Append(@, "pending"), !.lostDone = Append(@, FALSE),
                                 !.rx = Append(@, <<>>), !.eof = Append(@, FALSE), !.fault = Append(@, FALSE),
                                 !.stalled = Append(@, FALSE), !.armStall = Append(@, FALSE), !.closeWait = Append(@, FALSE),
                                 !.task[t].pc = "K2wait", !.task[t].arg = c]
             IN {R(Stop(s1), <<Ev(s, [e |-> "attempt", t |-> 0, c |-> c - 1])>>)}
  [] pc = "K3" ->          \* open_connection returned: arg = connection
        LET s1 == [s EXCEPT !.reader = me.arg, !.writer = me.arg, !.isConn = TRUE]
            \* SubSends: a connection subscriber submits a request whenever the link comes up (as the API
            \* layer does): its coroutine is a task of its own (as_completed wraps it), RETRY_CONNECTED policy
            sub == ConnSubs /\ SubSends /\ s.nmsg < MaxMsg
            m   == s.nmsg + 1
            s2  == IF sub
                   THEN LET a  == [m |-> m, kind |-> "ok", retries |-> 0, life |-> 2]
                            x  == Spawn(s1, "subsend", "S0", a, 0)
                        IN [x EXCEPT !.nmsg = m, !.calls = @ + 1, !.task[NT(x)].cid = s.calls + 1]
                   ELSE s1
            o   == IF sub THEN <<Ev(s, [e |-> "callsend", t |-> 0, id |-> s.calls + 1, desc |-> m, retries |-> 0,
                                       life |-> 1000, enc |-> "ok"])>> ELSE <<>>
        IN IF ConnSubs THEN { R(r, Notify(s, TRUE) \o o) : r \in Hops(s2, t, "K4") }
           ELSE {R(Cont(SetPc(s1, t, "K4"), t), <<>>)}
  [] pc = "K4" -> {R(Cont(Push(s, t, "K5", "R0"), t), <<>>)}
  [] pc = "K4x" ->         \* original code: an encoder exception escaped the drain and _connect
        {R(Done(s, t), <<Ev(s, [e |-> "unhandled", t |-> 0])>>)}
  [] pc = "K5" ->
        {R(Cont(SetPc(Spawn(s, "read", "L0", 0, 0), t, "K6"), t), <<>>)}
  [] pc = "K6" ->          \* also reached after a refused attempt
        IF ~s.isConn THEN {R(Done(ScheduleConnect(s, t, TRUE), t), <<>>)}
        ELSE {R(Done(s, t), <<>>)}
  \* ------------------------------------------------------------ send
  [] pc = "S0" ->          \* arg = [m, kind, retries, life]
        LET a == me.arg
        IN IF a.kind = "unreg" THEN {R(Done(s, t), <<RetSend(s, t, "NotImplementedError")>>)}
           ELSE IF ~s.isOpen THEN {R(Done(s, t), <<RetSend(s, t, "NotOpenError")>>)}
           ELSE LET live == SelectSeq(s.queue, LAMBDA q : s.now < q.expiry)
                    ent  == [m |-> a.m, kind |-> a.kind, retries |-> a.retries, expiry |-> s.now + a.life]
                    \* original code: the loop variable shadowed the parameter
                    app  == IF F_ENQ \/ s.queue = <<>> THEN ent ELSE Head(s.queue)
                IN IF Len(live) + (IF F_CAP THEN s.inflight ELSE 0) >= QCap
                   THEN {R(Done([s EXCEPT !.queue = live], t), <<RetSend(s, t, "QueueOverflowError")>>)}
                   ELSE {R(Cont(Push([s EXCEPT !.queue = Append(live, app)], t, "Sret", "R0"), t), <<>>)}
  [] pc = "Sret" -> {R(Done(s, t), <<RetSend(s, t, "ok")>>)}
  [] pc = "Sexc" -> {R(Done(s, t), <<RetSend(s, t, "error")>>)}
  \* ------------------------------------------------------------ _drain_message_queue
  [] pc = "R0" ->
        IF ~s.isConn \/ (~F_SOLO /\ s.inflight > 0) THEN {R(Cont(Ret(s, t), t), <<>>)}
        ELSE {R(Cont(SetPc([s EXCEPT !.task[t].wake = s.now], t, "R0l"), t), <<>>)}
  [] pc = "R0l" ->
        IF s.queue = <<>> THEN {R(Cont(Ret(s, t), t), <<>>)} ELSE {R(Cont(SetPc(s, t, "R1"), t), <<>>)}
  [] pc = "R1" ->          \* pop; expiry check; _write
        LET q  == Head(s.queue)
            s1 == [s EXCEPT !.queue = Tail(@)]
            w  == s.writer
            clk == IF F_CLOCK THEN s.now ELSE me.wake
        IN IF clk >= q.expiry THEN {R(Cont(SetPc(s1, t, "R0l"), t), <<>>)}
           ELSE IF q.kind = "bad" \/ w = None
           THEN IF F_DRAIN THEN {R(Cont(SetPc(s1, t, "R0l"), t), <<>>)}
                ELSE \* struct.error escapes the drain and whoever called it
                     LET top == me.stk[Len(me.stk)]
                     IN {R(Cont([s1 EXCEPT !.task[t].stk = <<>>,
                                           !.task[t].pc = IF top = "Sret" THEN "Sexc"
                                                          ELSE IF me.kind = "connect" THEN "K4x" ELSE "done"], t), <<>>)}
           ELSE LET good == (s.conn[w] \in {"up", "half"} \/ s.closeWait[w]) /\ ~s.fault[w]
                    tx   == Ev(s, [e |-> "txframe", t |-> 0, c |-> w - 1, ok |-> TRUE, alts |-> <<q.m>>,
                                   failed |-> ~good, nw |-> IF good THEN 1 ELSE 0,
                                   to |-> 128, from |-> 176, pid |-> 0, type |-> 44])
                IN IF good
                   THEN \* the write that fills the send buffer pauses the protocol from inside write();
                        \* drain() then suspends until resume_writing() or connection_lost()
                        LET trig == s.armStall[w] /\ ~s.stalled[w]
                            s2   == IF trig THEN [s1 EXCEPT !.stalled[w] = TRUE, !.armStall[w] = FALSE] ELSE s1
                            o    == (IF trig THEN <<Ev(s, [e |-> "stall", t |-> 0, c |-> w - 1])>> ELSE <<>>) \o <<tx>>
                        IN IF s2.stalled[w]
                           THEN {R(Stop([s2 EXCEPT !.task[t].pc = "Rdrain", !.task[t].arg = [q |-> q, w |-> w],
                                                   !.inflight = @ + 1]), o)}
                           ELSE {R(Cont(SetPc(s2, t, "R0l"), t), o)}
                   ELSE LET hit == s.conn[w] \in {"up", "half"}       \* the armed fault fires now
                            s2  == IF hit THEN [s1 EXCEPT !.conn[w] = "lost", !.fault[w] = FALSE,
                                                          !.stalled[w] = FALSE, !.armStall[w] = FALSE,
                                                          !.ready = Append(@, <<"lost", w>>)]
                                   ELSE s1
                            o   == IF hit THEN <<tx>> \o EndStallEv(s, w) \o <<Ev(s, [e |-> "lost", t |-> 0, c |-> w - 1])>> ELSE <<tx>>
                        IN \* drain(): sleep(0), then ConnectionResetError
                           {R(Stop([s2 EXCEPT !.task[t].pc = "Roserr", !.task[t].arg = q,
                                              !.inflight = @ + 1,
                                              !.ready = Append(@, <<"t", t>>)]), o)}
  [] pc = "Roserr" ->      \* except OSError: re-queue at the head with one retry less, or drop; reset
        LET q  == me.arg
            s0 == [s EXCEPT !.inflight = @ - 1]
            s1 == IF q.retries = 0 THEN s0
                  ELSE [s0 EXCEPT !.queue = <<[q EXCEPT !.retries = @ - 1]>> \o @]
        IN {R(Cont(Push(s1, t, "Rret", "X0"), t), <<>>)}
  [] pc = "Rcan" ->        \* CancelledError at `await drain()`: only the `finally` of the loop runs, send() ends
        {R(Done([s EXCEPT !.inflight = @ - 1], t), <<>>)}
  [] pc = "Rdrained" ->    \* drain() returned: the write is complete
        {R(Cont(SetPc([s EXCEPT !.inflight = @ - 1], t, "R0l"), t), <<>>)}
  [] pc = "Rret" -> {R(Cont(Ret(s, t), t), <<>>)}
  \* ------------------------------------------------------------ _read
  [] pc = "L0" ->
        IF s.reader = None THEN {R(Done(s, t), <<>>)}
        ELSE {R(Cont(SetPc(s, t, "L1"), t), <<>>)}
  [] pc = "L1" ->          \* _read_one_message on the CURRENT self._reader
        LET c == s.reader
        IN IF c = None THEN {R(Cont(Push(s, t, "L0", "X0"), t), <<>>)}
           ELSE IF \E u \in DataWaiters(s, c) : u # t
           THEN \* readexactly() while another coroutine waits: RuntimeError -> except Exception -> reset
                {R(Cont(Push(s, t, "done", "X0"), t), <<>>)}
           ELSE IF s.rx[c] # <<>>
           THEN LET f  == Head(s.rx[c])
                    s1 == [s EXCEPT !.rx[c] = Tail(@)]
                IN IF f.good
                   THEN LET d == Ev(s, [e |-> "deliver", t |-> 0, rd |-> f.id])
                        IN IF MsgSubs THEN { R(r, <<d>>) : r \in Hops(s1, t, "L0") }
                           ELSE {R(Cont(SetPc(s1, t, "L0"), t), <<d>>)}
                   ELSE {R(Cont(Push(s1, t, "L0", "X0"), t), <<>>)}
           ELSE IF s.lostDone[c] /\ s.conn[c] = "lost"
           THEN {R(Cont(Push(s, t, "done", "X0"), t), <<>>)}         \* OSError from the stream
           ELSE IF s.eof[c] \/ s.lostDone[c]
           THEN \* IncompleteReadError: reset only if the current writer is not closing
                IF s.writer # None /\ s.conn[s.writer] \in {"up", "half"}
                THEN {R(Cont(Push(s, t, "done", "X0"), t), <<>>)}
                ELSE {R(Done(s, t), <<>>)}
           ELSE {R(Stop([s EXCEPT !.task[t].pc = "L1wait", !.task[t].arg = c]), <<>>)}
  [] OTHER -> {}

-----------------------------------------------------------------------------
\* the event loop

RECURSIVE Fold(_, _)
Fold(m, evs) == IF evs = <<>> THEN m ELSE Fold(C!Step(m, Head(evs)), Tail(evs))

Apply(r) == S' = r.s /\ mon' = Fold(mon, r.out) /\ UNCHANGED script

Boundary(s) == s.running = None /\ s.batch = 0
DueSleepers(s) == {t \in Sleepers(s) : s.task[t].wake <= s.now}
Quiet(s) == Boundary(s) /\ s.ready = <<>> /\ DueSleepers(s) = {}

\* start of a loop iteration: due timers become ready, the handles now in `ready` form the batch
StartIter ==
  /\ Boundary(S) /\ (S.ready # <<>> \/ DueSleepers(S) # {})
  /\ LET due == DueSleepers(S)
         s1  == [S EXCEPT !.task = [t \in Tasks(S) |-> IF t \in due THEN [S.task[t] EXCEPT !.pc = "K1"] ELSE S.task[t]],
                          !.ready = @ \o Handles(due)]
     IN S' = [s1 EXCEPT !.batch = Len(s1.ready), !.iters = IF Record THEN @ + 1 ELSE @]
  /\ UNCHANGED <<mon, script>>

RunTask ==
  \/ /\ S.running # None
     /\ IF S.task[S.running].pc = "done" THEN Apply(R(Stop(S), <<>>))
        ELSE \E r \in Seg(S, S.running) : Apply(r)
  \/ /\ S.running = None /\ S.batch > 0
     /\ LET h  == Head(S.ready)
            s1 == [S EXCEPT !.ready = Tail(@), !.batch = @ - 1]
        IN IF h[1] = "lost"
           THEN \* connection_lost: EOF / exception to the reader, wait_closed and read waiters wake
                LET c  == h[2]
                    cw == ClosedWaiters(S, c)
                    dw == DataWaiters(S, c)
                    \* suspended drain() calls: the exception of a lost link, a normal return after close()
                    rw == DrainWaiters(S, c)
                    s2 == [s1 EXCEPT !.lostDone[c] = TRUE,
                                     !.task = [t \in Tasks(S) |->
                                        IF t \in cw THEN [S.task[t] EXCEPT !.pc = "D0hop"]
                                        ELSE IF t \in dw THEN [S.task[t] EXCEPT !.pc = "L1"]
                                        ELSE IF t \in rw
                                        THEN IF S.conn[c] = "lost" THEN [S.task[t] EXCEPT !.pc = "Roserr", !.arg = @.q]
                                             ELSE [S.task[t] EXCEPT !.pc = "Rdrained"]
                                        ELSE S.task[t]],
                                     !.ready = @ \o Handles(cw \cup dw \cup rw)]
                IN Apply(R(s2, <<>>))
           ELSE LET t == h[2]
                IN IF S.task[t].pc = "done" THEN Apply(R(s1, <<>>))
                   ELSE IF S.task[t].hops > 0
                   THEN Apply(R([s1 EXCEPT !.task[t].hops = @ - 1, !.ready = Append(@, h)], <<>>))
                   ELSE IF S.task[t].pc = "D0hop"
                   THEN \E r \in Hops(s1, t, "D1") : Apply(R(r, <<>>))   \* shield(): extra turns
                   ELSE Apply(R(Cont(s1, t), <<>>))

-----------------------------------------------------------------------------
\* environment: only between loop iterations

Log(op) == script' = IF Record
                     THEN (IF S.iters > 0 THEN Append(script, [op |-> "step", k |-> S.iters]) ELSE script) \o <<op>>
                     ELSE script

EnvStep(s1, out, op) ==
  /\ Boundary(S) /\ S.nenv < MaxEnv
  /\ S' = [s1 EXCEPT !.nenv = @ + 1, !.iters = 0]
  /\ mon' = Fold(mon, out)
  /\ Log(op)

NewCall(s, kind, pc, arg) ==
  LET s1 == Spawn(s, kind, pc, arg, 0)
  IN [s1 EXCEPT !.calls = @ + 1, !.task[NT(s1)].cid = s.calls + 1]

CallOpen ==
  /\ ~S.isOpen /\ NT(S) < MaxTask /\ ~\E t \in Tasks(S) : S.task[t].kind \in {"close", "open", "closeopen"} /\ S.task[t].pc # "done"
  /\ EnvStep(NewCall(S, "open", "open", 0), <<Ev(S, [e |-> "callopen", t |-> 0])>>,
             [op |-> "call", method |-> "open_socket"])

CallClose ==
  /\ S.isOpen /\ NT(S) < MaxTask /\ ~\E t \in Tasks(S) : S.task[t].kind \in {"close", "open", "closeopen"} /\ S.task[t].pc # "done"
  /\ EnvStep(NewCall(S, "close", "C0", 0), <<Ev(S, [e |-> "callclose", t |-> 0])>>,
             [op |-> "call", method |-> "close"])

CallCloseOpen ==
  /\ S.isOpen /\ NT(S) < MaxTask /\ ~\E t \in Tasks(S) : S.task[t].kind \in {"close", "open", "closeopen"} /\ S.task[t].pc # "done"
  /\ EnvStep(NewCall(S, "closeopen", "C0", 0), <<Ev(S, [e |-> "callclose", t |-> 0])>>,
             [op |-> "call_seq", methods |-> <<"close", "open_socket">>])

CallSend(kind, pol) ==
  /\ S.nmsg < MaxMsg /\ NT(S) < MaxTask
  /\ LET m  == S.nmsg + 1
         a  == [m |-> m, kind |-> kind, retries |-> pol[1], life |-> pol[2]]
         s1 == [NewCall(S, "send", "S0", a) EXCEPT !.nmsg = m]
     IN EnvStep(s1, <<Ev(S, [e |-> "callsend", t |-> 0, id |-> S.calls + 1, desc |-> m, retries |-> pol[1],
                              life |-> pol[2] * 500, enc |-> IF kind = "ok" THEN "ok" ELSE "bad"])>>,
                [op |-> "send", m |-> m, kind |-> kind, retries |-> pol[1], life |-> pol[2] * 500])

CallReset ==
  /\ S.isOpen /\ NT(S) < MaxTask /\ ~\E t \in Tasks(S) : S.task[t].kind = "xreset" /\ S.task[t].pc # "done"
  /\ LET s1 == NewCall(S, "xreset", "X0", 0)
     IN EnvStep([s1 EXCEPT !.task[NT(s1)].stk = <<"done">>], <<>>, [op |-> "call", method |-> "reset_connection"])

Resolve(ok) ==
  \E t \in Tasks(S) :
    /\ S.task[t].pc = "K2wait"
    /\ LET c == S.task[t].arg
       IN IF ok
          THEN EnvStep([S EXCEPT !.conn[c] = "up", !.task[t].pc = "K3", !.ready = Append(@, <<"t", t>>)],
                       <<Ev(S, [e |-> "connok", t |-> 0, c |-> c - 1])>>, [op |-> "resolve", how |-> "ok"])
          ELSE EnvStep([S EXCEPT !.conn[c] = "refused", !.task[t].pc = "K6", !.ready = Append(@, <<"t", t>>)],
                       <<Ev(S, [e |-> "refused", t |-> 0, c |-> c - 1])>>, [op |-> "resolve", how |-> "refuse"])

Tick(dt) ==
  /\ Quiet(S)
  /\ IF Sleepers(S) = {} THEN TRUE ELSE S.now + dt <= MinWake(S)
  /\ EnvStep([S EXCEPT !.now = @ + dt], <<>>, [op |-> "advance", by |-> dt * 500])

TickToTimer ==
  /\ Quiet(S) /\ Sleepers(S) # {}
  /\ EnvStep([S EXCEPT !.now = MinWake(S)], <<>>, [op |-> "advance", by |-> (MinWake(S) - S.now) * 500])

Feed(good) ==
  \E c \in Cn(S) :
    /\ S.conn[c] = "up" /\ Len(S.rx[c]) < 2
    /\ LET id == S.calls + 1     \* frame identity
           dw == DataWaiters(S, c)
           s1 == [S EXCEPT !.rx[c] = Append(@, [good |-> good, id |-> id]), !.calls = @ + 1,
                           !.task = [t \in Tasks(S) |-> IF t \in dw THEN [S.task[t] EXCEPT !.pc = "L1"] ELSE S.task[t]],
                           !.ready = @ \o Handles(dw)]
       IN EnvStep(s1, <<Ev(S, IF good THEN [e |-> "rxframe", t |-> 0, c |-> c - 1, alts |-> <<id>>, soft |-> FALSE]
                                      ELSE [e |-> "rxdefect", t |-> 0, c |-> c - 1, why |-> "crc"])>>,
                  [op |-> "feed", c |-> c - 1, good |-> good, id |-> id])

\* (after the peer's EOF the transport no longer reads: a later link error shows only as a failing write)
PeerReset ==
  \E c \in Cn(S) :
    /\ S.conn[c] = "up"
    /\ EnvStep([S EXCEPT !.conn[c] = "lost", !.ready = Append(@, <<"lost", c>>), !.stalled[c] = FALSE, !.armStall[c] = FALSE],
               EndStallEv(S, c) \o <<Ev(S, [e |-> "lost", t |-> 0, c |-> c - 1])>>, [op |-> "peer_reset", c |-> c - 1])

PeerEof ==
  \E c \in Cn(S) :
    /\ S.conn[c] = "up"
    /\ LET dw == DataWaiters(S, c)
       IN EnvStep([S EXCEPT !.conn[c] = "half", !.eof[c] = TRUE,
                            !.task = [t \in Tasks(S) |-> IF t \in dw THEN [S.task[t] EXCEPT !.pc = "L1"] ELSE S.task[t]],
                            !.ready = @ \o Handles(dw)],
                  <<Ev(S, [e |-> "peereof", t |-> 0, c |-> c - 1])>>, [op |-> "peer_eof", c |-> c - 1])

ArmFault ==
  \E c \in Cn(S) :
    /\ S.conn[c] \in {"up", "half"} /\ ~S.fault[c]
    /\ EnvStep([S EXCEPT !.fault[c] = TRUE], <<>>, [op |-> "arm_fault", c |-> c - 1])

\* back-pressure: the console stops reading now / the next write fills the buffer / it reads again
Stall ==
  \E c \in Cn(S) :
    /\ Stalls /\ S.conn[c] \in {"up", "half"} /\ ~S.stalled[c]
    /\ EnvStep([S EXCEPT !.stalled[c] = TRUE, !.armStall[c] = FALSE],
               <<Ev(S, [e |-> "stall", t |-> 0, c |-> c - 1])>>, [op |-> "pause", c |-> c - 1])

ArmStall ==
  \E c \in Cn(S) :
    /\ Stalls /\ S.conn[c] \in {"up", "half"} /\ ~S.stalled[c] /\ ~S.armStall[c]
    /\ EnvStep([S EXCEPT !.armStall[c] = TRUE], <<>>, [op |-> "arm_pause", c |-> c - 1])

Unstall ==
  \E c \in Cn(S) :
    /\ Stalls /\ S.stalled[c]
    /\ IF S.closeWait[c]
       THEN \* the buffer of a connection the client has closed drains: the close completes
            EnvStep([S EXCEPT !.stalled[c] = FALSE, !.closeWait[c] = FALSE, !.ready = Append(@, <<"lost", c>>)],
                    <<Ev(S, [e |-> "unstall", t |-> 0, c |-> c - 1, ended |-> TRUE])>>, [op |-> "resume", c |-> c - 1])
       ELSE LET rw == DrainWaiters(S, c)
            IN EnvStep([S EXCEPT !.stalled[c] = FALSE,
                                 !.task = [t \in Tasks(S) |-> IF t \in rw THEN [S.task[t] EXCEPT !.pc = "Rdrained"] ELSE S.task[t]],
                                 !.ready = @ \o Handles(rw)],
                       <<Ev(S, [e |-> "unstall", t |-> 0, c |-> c - 1, ended |-> FALSE])>>, [op |-> "resume", c |-> c - 1])

\* the application cancels one of its own send() calls while it is suspended in drain() on a stalled
\* connection (asyncio.timeout / wait_for around the call): the frame is already in the send buffer
CancelSend ==
  \E t \in Tasks(S) :
    /\ Stalls /\ S.task[t].kind = "send" /\ S.task[t].pc = "Rdrain"
    /\ EnvStep([S EXCEPT !.task[t].pc = "Rcan", !.ready = Append(@, <<"t", t>>)],
               <<Ev(S, [e |-> "cancelsend", t |-> 0, id |-> S.task[t].cid])>>, [op |-> "cancel", m |-> S.task[t].arg.q.m])

\* a checkpoint of the contract: the loop has nothing left to do
Checkpoint ==
  /\ Quiet(S) /\ S.nenv > 0
  /\ EnvStep(S, <<Ev(S, [e |-> "quiesce", t |-> 0])>>, [op |-> "quiesce"])

Env == \/ CallOpen \/ CallClose \/ CallReset \/ CallCloseOpen
       \/ \E k \in Kinds, p \in Policies : CallSend(k, p)
       \/ Resolve(TRUE) \/ Resolve(FALSE)
       \/ \E dt \in Dts : Tick(dt)
       \/ TickToTimer
       \/ Feed(TRUE) \/ Feed(FALSE) \/ PeerReset \/ PeerEof \/ ArmFault
       \/ Stall \/ ArmStall \/ Unstall \/ CancelSend
       \/ Checkpoint

Next == StartIter \/ RunTask \/ Env
Spec == Init /\ [][Next]_vars

-----------------------------------------------------------------------------
\* properties

\* refinement: no behaviour of the implementation model breaks a clause of the L1 contract
ContractHolds == mon.viol = <<>>

Up(s) == {c \in Cn(s) : s.conn[c] \in {"up", "half"}}
AtMostOne == Cardinality(Up(S)) <= 1

\* at quiescence an open socket holds no connection other than its current one
AbandonedClosed == Quiet(S) => \A c \in Up(S) : c = S.writer

\* connected and quiet => some read task is waiting on the current reader (not deaf); while the
\* console does not read, _connect may be held in its initial drain, before it starts the read task
NoWedge == (Quiet(S) /\ S.isOpen /\ S.isConn /\ S.writer # None /\ S.conn[S.writer] = "up" /\ ~S.stalled[S.writer])
             => \E t \in Tasks(S) : S.task[t].pc = "L1wait" /\ S.task[t].arg = S.reader

\* open, quiet, nothing in flight => either connected or a (re)connection is on its way
NoGiveUp == (Quiet(S) /\ S.isOpen /\ ~S.isConn
             /\ ~\E t \in Tasks(S) : S.task[t].kind \in {"close", "open", "closeopen"} /\ S.task[t].pc # "done")
             => \E t \in Tasks(S) : S.task[t].kind = "connect" /\ S.task[t].pc \in {"K2wait", "Ksleep"}

\* closed and quiet => nothing of the client is left behind
ClosedIsFinal == (Quiet(S) /\ ~S.isOpen /\ ~\E t \in Tasks(S) : S.task[t].kind \in {"close", "open", "closeopen"} /\ S.task[t].pc # "done")
                   => /\ Up(S) = {}
                      /\ ~\E t \in Tasks(S) : S.task[t].pc \in {"K2wait", "Ksleep", "L1wait", "D0wait"}

QueueBound == Len(S.queue) + S.inflight <= QCap

\* state constraint of the bounded model (tables are append-only)
Bound == NT(S) <= MaxTask /\ NC(S) <= MaxConn

\* emit the environment script of each behaviour that used up its budget (Record = TRUE)
EmitScript == (Record /\ S.nenv = MaxEnv /\ Quiet(S)) => PrintT(<<"SCRIPT", script>>)
=============================================================================
