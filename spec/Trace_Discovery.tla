--------------------------- MODULE Trace_Discovery ---------------------------
(* Batch validation of recorded discover() executions against DiscoveryContract. *)
EXTENDS Naturals, Sequences, TLC, Json, IOUtils, DiscoveryContract

Traces == JsonDeserialize(IOEnv.TRACE_FILE).traces
N == Len(Traces)
VARIABLES tid, l, d
Init == tid = 1 /\ l = 1 /\ d = D0
Next ==
  /\ tid <= N
  /\ IF l <= Len(Traces[tid].ev)
     THEN /\ d' = DStep([d EXCEPT !.n = l], Traces[tid].ev[l]) /\ l' = l + 1 /\ tid' = tid
     ELSE /\ PrintT(<<"VERDICT", Traces[tid].id, d.viol>>)
          /\ tid' = tid + 1 /\ l' = 1 /\ d' = D0
=============================================================================
