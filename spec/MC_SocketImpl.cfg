CONSTANTS
  MaxConn = 3
  MaxTask = 10
  MaxMsg = 2
  MaxEnv = 5
  H = 2
  ConnSubs = FALSE
  MsgSubs = FALSE
  QCap = 10
  F_ENQ = TRUE
  F_DRAIN = TRUE
  F_ONE = TRUE
  F_CLOSE = TRUE
  Record = FALSE
  Kinds <- KindsBad
  Policies <- PolMixed
SPECIFICATION Spec
CONSTRAINT Bound
INVARIANT ContractHolds
INVARIANT AtMostOne
INVARIANT AbandonedClosed
INVARIANT NoWedge
INVARIANT NoGiveUp
INVARIANT ClosedIsFinal
INVARIANT QueueBound
CHECK_DEADLOCK FALSE
