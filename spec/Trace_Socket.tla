---------------------------- MODULE Trace_Socket ----------------------------
(***************************************************************************)
(* Batch validation of recorded socket traces against SocketContract.      *)
(* Input: JSON {"traces": [{"id":, "proto":, "ev": [raw events]}]} at the   *)
(* path in environment variable TRACE_FILE.  One deterministic behaviour    *)
(* walks through all traces, one raw event per step; the verdict of each    *)
(* trace (clauses broken, with the event index) is printed when it ends.    *)
(***************************************************************************)
EXTENDS Naturals, Sequences, TLC, Json, IOUtils, SocketContract, SocketFront

Input  == JsonDeserialize(IOEnv.TRACE_FILE)
Traces == Input.traces
N      == Len(Traces)

VARIABLES tid, l, s, f
vars == <<tid, l, s, f>>

Init == tid = 1 /\ l = 1 /\ s = S0 /\ f = F0

RECURSIVE Fold(_, _)
Fold(st, evs) == IF evs = <<>> THEN st ELSE Fold(Step(st, Head(evs)), Tail(evs))

Emit(t, st) == PrintT(<<"VERDICT", Traces[t].id, st.viol>>)

Next ==
  /\ tid <= N
  /\ IF l <= Len(Traces[tid].ev)
     THEN LET r == Lower(Traces[tid].proto, f, Traces[tid].ev[l])
          IN /\ s' = Fold([s EXCEPT !.n = l], r.out)
             /\ f' = r.f
             /\ l' = l + 1
             /\ tid' = tid
     ELSE /\ Emit(tid, s)
          /\ tid' = tid + 1 /\ l' = 1 /\ s' = S0 /\ f' = F0

\* every trace prints exactly one VERDICT line; the driver requires N of them (total verdicts)
Done == tid = N + 1
=============================================================================
