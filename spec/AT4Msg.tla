------------------------------- MODULE AT4Msg -------------------------------
(***************************************************************************)
(* Reference reading of every AirTouch 4 message payload.                  *)
(*                                                                         *)
(* Source: "AirTouch 4 Communication Protocol" v1.6 (Polyaire), plain text *)
(* in /verif/refs/at4_protocol_v1.6.txt.  Section numbers below (4a .. 4e- *)
(* iv) are the sections of that document.  The document numbers bytes from *)
(* 1 and bits from 1 (bit8 = most significant), exactly like TLA+ indexes  *)
(* sequences, so `p[3]` is the document's "Byte3" and "Bit8" of a byte b   *)
(* is `b \div 128`.                                                        *)
(*                                                                         *)
(* NOT in the vendor document (reverse engineered by the pyairtouch         *)
(* project): AC timer control 0x36, AC timer status 0x37, quick timer      *)
(* 0x1F/FF20.  For these three the layout is taken from the module         *)
(* docstrings/comments of /repo/pyairtouch/at4/comms/x36_*.py, x37_*.py,   *)
(* x1FFF20_*.py and the byte vectors of /repo/tests/at4/comms/test_x36_*,  *)
(* test_x37_*, test_x1FFF20_* -- they are therefore NOT independent of the *)
(* code (see the comments at Dec_AcTimer and Dec_QuickTimer).              *)
(*                                                                         *)
(* The shapes of the values (record field names, enum member names,        *)
(* Optional wrapping, thousandths) are those of                            *)
(* /verif/harness/project.py::project() applied to the Python message      *)
(* classes; the MEANING of every bit is the document's.                    *)
(*                                                                         *)
(* Reading rules (WIRE_BRIEF.md):                                          *)
(*  - console -> client payloads (status, ability, names, version, error)  *)
(*    strictly: undocumented code = "NA"; documented not-available         *)
(*    sentinel = <<>> in an Optional field, "NA" in a non-Optional field;  *)
(*    NOT USED bits ignored.                                               *)
(*  - client -> console payloads (control) leniently, as a console would:  *)
(*    a code without a defined action = keep ("UNCHANGED" / <<>>), a value *)
(*    byte that is not "valid when ..." is ignored.                        *)
(*  - a length inconsistent with the documented layout =                   *)
(*    [k |-> "Undecodable", why |-> ...] at top level.                     *)
(*  - SoftMsg(type, payload) = the reading is Undecodable or contains      *)
(*    "NA", or (0x2A only, see Undoc_GroupControl) carries a control code  *)
(*    for which the document has neither a meaning nor an "Other" clause:  *)
(*    an implementation may legitimately reject such a frame.              *)
(***************************************************************************)
EXTENDS Naturals, Sequences, Bitwise, SequencesExt, FiniteSets, TLC

----------------------------------------------------------------------------
\* Helpers

Undecodable(why) == [k |-> "Undecodable", why |-> why]

Bit(b, n) == (b \div (2 ^ (n - 1))) % 2 = 1        \* document bit numbering: Bit(b, 8) is the top bit

From(p, from) == SubSeq(p, from, Len(p))            \* bytes from document position `from` to the end

\* Fixed-width text field "If less than N bytes, end with 0" (4e-i Byte5-20, 4e-iii Byte4-11):
\* the bytes before the first 0x00, all of them when there is none.  Raw bytes, no UTF-8 validation.
CString(s) == LET z == SelectInSeq(s, LAMBDA b : b = 0)
              IN IF z = 0 THEN s ELSE SubSeq(s, 1, z - 1)

\* Split a byte string at every occurrence of `sep` (the empty string gives one empty element,
\* n separators give n + 1 elements, like Python's str.split(sep)).
Split(s, sep) ==
  LET n    == Len(s)
      cuts == <<0>> \o SelectSeq([i \in 1..n |-> i], LAMBDA i : s[i] = sep) \o <<n + 1>>
  IN [j \in 1..(Len(cuts) - 1) |-> SubSeq(s, cuts[j] + 1, cuts[j + 1] - 1)]

\* 4b/4d Byte5 + Byte6 bit8-6: eleven bits, Byte5 the high eight.  "Current Temperature =
\* (VALUE - 500)/10" degC; in thousandths of a degree that is (VALUE - 500) * 100.
\* Doc example: 0x61 0x80 -> VALUE = 0x30c = 780 -> 28 degC.
TempValue(b5, b6)       == b5 * 8 + b6 \div 32
TempThousandths(b5, b6) == (TempValue(b5, b6) - 500) * 100
TempNotAvailable(b5)    == b5 = 255                  \* "Byte5=0xff, Not available" -- Byte5 alone

----------------------------------------------------------------------------
\* 4a  Group control message (0x2A), client -> console, lenient.
\* "4 bytes data".  Byte1 group number.  Byte2 bit8-6 group setting value (000 keep, 010 decrease,
\* 011 increase, 100 set open percentage, 101 set target setpoint), bit5-4 control method (00 keep,
\* 01 change, 10 percentage, 11 temperature), bit3-1 power (000 keep, 001 next state, 010 off,
\* 011 on, 101 turbo).  Byte3 value, "Valid when bit8-6 of byte2 are 100 or 101".  Byte4 keep 0.
\* The document lists no "Other" row here: setting codes 001/110/111 and power codes 100/110/111
\* have no defined action; a console can only leave the attribute as it is -> keep.  Such payloads
\* are flagged by Undoc_GroupControl (and hence SoftMsg).

GroupPowerCtl(c)  == CASE c = 1 -> "TOGGLE" [] c = 2 -> "TURN_OFF" [] c = 3 -> "TURN_ON" [] c = 5 -> "TURBO"
                       [] OTHER -> "UNCHANGED"
GroupMethodCtl(c) == CASE c = 1 -> "CHANGE" [] c = 2 -> "DAMPER" [] c = 3 -> "TEMPERATURE"
                       [] OTHER -> "UNCHANGED"
GroupSettingCtl(c, v) ==
  CASE c = 2 -> <<"DECREASE">>
    [] c = 3 -> <<"INCREASE">>
    [] c = 4 -> <<[k |-> "GroupDamperControl", open_percentage |-> v]>>
    [] c = 5 -> <<[k |-> "GroupSetPointControl", set_point |-> v]>>
    [] OTHER -> <<>>

Bad_GroupControl(p)   == Len(p) # 4
Undoc_GroupControl(p) == /\ Len(p) = 4
                         /\ \/ (p[2] % 8) \in {4, 6, 7}
                            \/ (p[2] \div 32) \in {1, 6, 7}

Dec_GroupControl(p) ==
  IF Bad_GroupControl(p) THEN Undecodable("GroupControl length")
  ELSE [k |-> "GroupControlMessage", group_number |-> p[1],
        power |-> GroupPowerCtl(p[2] % 8),
        control_method |-> GroupMethodCtl((p[2] \div 8) % 4),
        setting |-> GroupSettingCtl(p[2] \div 32, p[3])]

Soft_GroupControl(p) == Bad_GroupControl(p) \/ Undoc_GroupControl(p)

----------------------------------------------------------------------------
\* 4b  Group status message (0x2B).  "without any data (data length: 0x00 0x00) to request group
\* status"; otherwise 6 bytes per group, repeated ("2 groups will receive 12 bytes data").
\* Byte1 bit8-7 power state (00 off, 01 on, 11 turbo; 10 undocumented), bit6-1 group number.
\* Byte2 bit8 control method (1 temperature, 0 percentage), bit7-1 open percentage.
\* Byte3 bit8 battery low, bit7 turbo support, bit6-1 target setpoint.
\* Byte4 bit8 sensor, bit7-1 NOT USED.
\* Byte5 + Byte6 bit8-6 temperature, "Byte5=0xff, Not available"; Byte6 bit5 spill, bit4-1 NOT USED.
\* The document defines NO not-available value for the target setpoint and does not make setpoint
\* or temperature depend on the sensor bit: set_point is always present, temperature is absent
\* exactly when Byte5 = 0xff.

GroupPowerState(c) == CASE c = 0 -> "OFF" [] c = 1 -> "ON" [] c = 3 -> "TURBO" [] OTHER -> "NA"

GroupStatusRec(r) ==
  [k |-> "GroupStatusData",
   group_number      |-> r[1] % 64,
   power_state       |-> GroupPowerState(r[1] \div 64),
   control_method    |-> IF Bit(r[2], 8) THEN "TEMPERATURE" ELSE "DAMPER",
   damper_percentage |-> r[2] % 128,
   battery_status    |-> IF Bit(r[3], 8) THEN "LOW" ELSE "NORMAL",
   supports_turbo    |-> Bit(r[3], 7),
   set_point         |-> <<r[3] % 64>>,
   has_sensor        |-> Bit(r[4], 8),
   temperature       |-> IF TempNotAvailable(r[5]) THEN <<>> ELSE <<TempThousandths(r[5], r[6])>>,
   spill_active      |-> Bit(r[6], 5)]

Bad_GroupStatus(p) == Len(p) % 6 # 0

Dec_GroupStatus(p) ==
  IF Len(p) = 0 THEN [k |-> "GroupStatusRequest"]
  ELSE IF Bad_GroupStatus(p) THEN Undecodable("GroupStatus length not a multiple of 6")
  ELSE [k |-> "GroupStatusMessage",
        groups |-> [i \in 1..(Len(p) \div 6) |-> GroupStatusRec(SubSeq(p, 6 * i - 5, 6 * i))]]

Soft_GroupStatus(p) ==
  \/ Bad_GroupStatus(p)
  \/ \E i \in 1..(Len(p) \div 6) : p[6 * i - 5] \div 64 = 2

----------------------------------------------------------------------------
\* 4c  AC control message (0x2C), client -> console, lenient.  "4 bytes data".
\* Byte1 bit8-7 power (00 keep, 01 change on/off, 10 off, 11 on), bit6-1 AC number.
\* Byte2 bit8-5 mode (0 auto, 1 heat, 2 dry, 3 fan, 4 cool, "Other: Keep mode setting"),
\* bit4-1 fan speed (0 auto, 1 quiet, 2 low, 3 medium, 4 high, 5 powerful, 6 turbo, "Other: Keep").
\* Byte3 bit8-7 setpoint control type (00 keep, 01 set value, 10 decrease, 11 increase),
\* bit6-1 value (only meaningful for type 01).  Byte4 keep 0.

AcPowerCtl(c) == CASE c = 1 -> "TOGGLE" [] c = 2 -> "TURN_OFF" [] c = 3 -> "TURN_ON" [] OTHER -> "UNCHANGED"
AcModeCtl(c)  == CASE c = 0 -> "AUTO" [] c = 1 -> "HEAT" [] c = 2 -> "DRY" [] c = 3 -> "FAN" [] c = 4 -> "COOL"
                   [] OTHER -> "UNCHANGED"
AcFanCtl(c)   == CASE c = 0 -> "AUTO" [] c = 1 -> "QUIET" [] c = 2 -> "LOW" [] c = 3 -> "MEDIUM" [] c = 4 -> "HIGH"
                   [] c = 5 -> "POWERFUL" [] c = 6 -> "TURBO" [] OTHER -> "UNCHANGED"
AcSetPointCtl(b) == CASE b \div 64 = 1 -> <<[k |-> "AcSetPointValue", set_point |-> b % 64]>>
                      [] b \div 64 = 2 -> <<"DECREASE">>
                      [] b \div 64 = 3 -> <<"INCREASE">>
                      [] OTHER -> <<>>

Bad_AcControl(p) == Len(p) # 4

Dec_AcControl(p) ==
  IF Bad_AcControl(p) THEN Undecodable("AcControl length")
  ELSE [k |-> "AcControlMessage", ac_number |-> p[1] % 64, power |-> AcPowerCtl(p[1] \div 64),
        mode |-> AcModeCtl(p[2] \div 16), fan_speed |-> AcFanCtl(p[2] % 16),
        set_point_control |-> AcSetPointCtl(p[3])]

Soft_AcControl(p) == Bad_AcControl(p)

----------------------------------------------------------------------------
\* 4d  AC status message (0x2D).  "without any data ... to request AC status"; otherwise 8 bytes
\* per AC, repeated ("2 ACs will receive 16 bytes data").
\* Byte1 bit8-7 power state (00 off, 01 on, "10/11: Not available"), bit6-1 AC number.
\* Byte2 bit8-5 mode (0 auto, 1 heat, 2 dry, 3 fan, 4 cool, 8 auto heat, 9 auto cool, "Other: Not
\* available"), bit4-1 fan speed (0 auto .. 6 turbo, "Other: Not available").
\* Byte3 bit8 spill, bit7 timer, bit6-1 target setpoint.  Byte4 NOT USED.
\* Byte5 + Byte6 bit8-6 temperature as in 4b ("Byte5=0xff, Not available"), Byte6 bit5-1 NOT USED.
\* Byte7 Byte8 error code, 0 = no error.  Two bytes, first byte high (the document's only stated
\* convention for two-byte numbers, 3e; its example 0xff 0xfe "error occurred" fits either way).
\* All Python fields of this record are non-Optional: not-available reads "NA".

AcPowerState(c) == CASE c = 0 -> "OFF" [] c = 1 -> "ON" [] OTHER -> "NA"
AcMode(c) == CASE c = 0 -> "AUTO" [] c = 1 -> "HEAT" [] c = 2 -> "DRY" [] c = 3 -> "FAN" [] c = 4 -> "COOL"
               [] c = 8 -> "AUTO_HEAT" [] c = 9 -> "AUTO_COOL" [] OTHER -> "NA"
AcFanSpeed(c) == CASE c = 0 -> "AUTO" [] c = 1 -> "QUIET" [] c = 2 -> "LOW" [] c = 3 -> "MEDIUM" [] c = 4 -> "HIGH"
                   [] c = 5 -> "POWERFUL" [] c = 6 -> "TURBO" [] OTHER -> "NA"

AcStatusRec(r) ==
  [k |-> "AcStatusData",
   ac_number    |-> r[1] % 64,
   power_state  |-> AcPowerState(r[1] \div 64),
   mode         |-> AcMode(r[2] \div 16),
   fan_speed    |-> AcFanSpeed(r[2] % 16),
   spill_active |-> Bit(r[3], 8),
   timer_set    |-> Bit(r[3], 7),
   set_point    |-> r[3] % 64,
   temperature  |-> IF TempNotAvailable(r[5]) THEN "NA" ELSE <<TempThousandths(r[5], r[6])>>,
   error_code   |-> r[7] * 256 + r[8]]

Bad_AcStatus(p) == Len(p) % 8 # 0

Dec_AcStatus(p) ==
  IF Len(p) = 0 THEN [k |-> "AcStatusRequest"]
  ELSE IF Bad_AcStatus(p) THEN Undecodable("AcStatus length not a multiple of 8")
  ELSE [k |-> "AcStatusMessage",
        ac_status |-> [i \in 1..(Len(p) \div 8) |-> AcStatusRec(SubSeq(p, 8 * i - 7, 8 * i))]]

Soft_AcStatusRec(r) ==
  \/ r[1] \div 64 >= 2
  \/ (r[2] \div 16) \notin {0, 1, 2, 3, 4, 8, 9}
  \/ r[2] % 16 > 6
  \/ TempNotAvailable(r[5])

Soft_AcStatus(p) ==
  \/ Bad_AcStatus(p)
  \/ \E i \in 1..(Len(p) \div 8) : Soft_AcStatusRec(SubSeq(p, 8 * i - 7, 8 * i))

----------------------------------------------------------------------------
\* AC timer control (0x36) / AC timer status and request (0x37).  NOT IN THE VENDOR DOCUMENT.
\* Layout source: docstrings and comments of pyairtouch/at4/comms/x37_ac_timer_status.py and
\* x36_ac_timer_ctrl.py ("On and Off Timer for each AC plus padding", "The AC Number is implicitly
\* derived from the index into the repeating structure", "contents of [0x36] are identical to the
\* AC Timer Status Message", "Empty message not supported for AC Timer Control"), bit positions
\* pinned by tests/at4/comms/test_x37_ac_timer_status.py / test_x36_ac_timer_ctrl.py:
\*   82 03 84 05 00 00 00 00 = on timer disabled 02:03, off timer disabled 04:05
\*   02 03 84 05 ...         = on timer enabled 02:03
\* 8 bytes per AC: Byte1-2 on timer, Byte3-4 off timer, Byte5-8 padding (ignored).  Timer state:
\* first byte bit8 = disabled, bit5-1 = hour; second byte bit6-1 = minute.  AC number = record
\* index from 0.  0x37 with no data = request.  The observed message has four records; the
\* repository's vectors also accept any whole number of records, so does this reading.

TimerState(b1, b2) == [k |-> "AcTimerState", disabled |-> Bit(b1, 8), hour |-> b1 % 32, minute |-> b2 % 64]

AcTimerRec(r, n) == [k |-> "AcTimerStatusData", ac_number |-> n,
                     on_timer |-> TimerState(r[1], r[2]), off_timer |-> TimerState(r[3], r[4])]

AcTimerRecs(p) == [i \in 1..(Len(p) \div 8) |-> AcTimerRec(SubSeq(p, 8 * i - 7, 8 * i), i - 1)]

Bad_AcTimerStatus(p)  == Len(p) % 8 # 0
Bad_AcTimerControl(p) == Len(p) = 0 \/ Len(p) % 8 # 0

Dec_AcTimerStatus(p) ==
  IF Len(p) = 0 THEN [k |-> "AcTimerStatusRequest"]
  ELSE IF Bad_AcTimerStatus(p) THEN Undecodable("AcTimerStatus length not a multiple of 8")
  ELSE [k |-> "AcTimerStatusMessage", ac_timer_status |-> AcTimerRecs(p)]

Dec_AcTimerControl(p) ==
  IF Bad_AcTimerControl(p) THEN Undecodable("AcTimerControl length empty or not a multiple of 8")
  ELSE [k |-> "AcTimerControlMessage", ac_timer_status |-> AcTimerRecs(p)]

Soft_AcTimerStatus(p)  == Bad_AcTimerStatus(p)
Soft_AcTimerControl(p) == Bad_AcTimerControl(p)

----------------------------------------------------------------------------
\* 4e-ii  AC error information (0xFF 0x10).  In the operators below `d` is the data AFTER the two
\* command bytes, so d[1] is the document's Byte3.
\* Request: "0xFF 0x10 [0-3]" = exactly one byte, the AC number (the document's example).
\* Response: Byte3 AC number, Byte4 error info length ("If no error, will be 0"), Byte5.. string.
\* The announced length must be exactly the bytes present.  No data at all is not documented.

Bad_AcError(d) == Len(d) = 0 \/ (Len(d) >= 2 /\ Len(d) # 2 + d[2])

Dec_AcError(d) ==
  IF Len(d) = 1 THEN [k |-> "AcErrorInformationRequest", ac_number |-> d[1]]
  ELSE IF Bad_AcError(d) THEN Undecodable("AcErrorInformation length")
  ELSE [k |-> "AcErrorInformationMessage", ac_number |-> d[1],
        error_info |-> IF d[2] = 0 THEN <<>> ELSE <<From(d, 3)>>]

Soft_AcError(d) == Bad_AcError(d)

----------------------------------------------------------------------------
\* 4e-i  AC ability (0xFF 0x11).  Request: "data 0xFF 0x11 or (0xFF 0x11 [0-3])" = nothing (all
\* ACs) or one byte (one AC).  Response, per AC (d[1] = document Byte3):
\* Byte3 AC number, Byte4 following data length ("the count of following bytes belong to the
\* ability of this AC"; "changed from 22 to 24" with console 1.2.3), Byte5-20 name (16 bytes,
\* 0-terminated if shorter), Byte21 start group, Byte22 group count, Byte23 bit5 cool / bit4 fan /
\* bit3 dry / bit2 heat / bit1 auto, Byte24 bit7 turbo / bit6 powerful / bit5 high / bit4 medium /
\* bit3 low / bit2 quiet / bit1 auto, Byte25 minimum set point, Byte26 maximum set point,
\* Byte27 bit1..8 = Group1..Group8 shown, Byte28 bit1..8 = Group9..Group16 shown.  The doc example
\* ("0x07 0x00": "Group 1, 2, 3 are visible") numbers groups from 1 in this table; group numbers
\* elsewhere are 0-15, so Byte27 bit1 is group number 0.
\* A record occupies 2 + following-length bytes (the announced length is honoured as the stride:
\* "If there are more than one AC, the data will be repeated").  Following length < 22 cannot hold
\* the documented fields; 22..23 has no complete Byte27/28 ("If there is no byte27/28, all groups
\* will be displayed" -> Python None -> <<>>); >= 24 has the bitmap, further bytes are ignored.
\* The UNCHANGED member of the two support maps is a Python-side constant (always TRUE), it has no
\* wire representation.  (UNCHANGED is a TLA+ keyword, hence the :> form of that record field.)

Unchanged == "UNCHANGED" :> TRUE
AbilityModes(b) == [AUTO |-> Bit(b, 1), HEAT |-> Bit(b, 2), DRY |-> Bit(b, 3), FAN |-> Bit(b, 4),
                    COOL |-> Bit(b, 5)] @@ Unchanged
AbilityFans(b)  == [AUTO |-> Bit(b, 1), QUIET |-> Bit(b, 2), LOW |-> Bit(b, 3), MEDIUM |-> Bit(b, 4),
                    HIGH |-> Bit(b, 5), POWERFUL |-> Bit(b, 6), TURBO |-> Bit(b, 7)] @@ Unchanged

GroupNumbers == [i \in 1..16 |-> i - 1]
ShownGroups(b27, b28) == SelectSeq(GroupNumbers, LAMBDA g : IF g < 8 THEN Bit(b27, g + 1) ELSE Bit(b28, g - 7))

\* r = one record (r[1] = Byte3 ... ), Len(r) = 2 + r[2] >= 24
AbilityRec(r) ==
  [k |-> "AcAbility",
   ac_number         |-> r[1],
   ac_name           |-> CString(SubSeq(r, 3, 18)),
   start_group       |-> r[19],
   group_count       |-> r[20],
   ac_mode_support   |-> AbilityModes(r[21]),
   fan_speed_support |-> AbilityFans(r[22]),
   min_set_point     |-> r[23],
   max_set_point     |-> r[24],
   groups            |-> IF r[2] >= 24 THEN << ShownGroups(r[25], r[26]) >> ELSE <<>>]

\* Offsets (bytes consumed before each record) of a well-formed sequence of records that exactly
\* fills d; <<>> when the announced lengths do not add up (d is non-empty here, so a well-formed
\* walk has at least one record).
RECURSIVE AbilityWalk(_, _, _)
AbilityWalk(d, o, acc) ==
  IF o = Len(d) THEN acc
  ELSE IF o + 2 > Len(d) THEN <<>>
  ELSE LET fl == d[o + 2]
       IN IF fl < 22 \/ o + 2 + fl > Len(d) THEN <<>>
          ELSE AbilityWalk(d, o + 2 + fl, Append(acc, o))

Bad_AcAbility(d) == Len(d) >= 2 /\ AbilityWalk(d, 0, <<>>) = <<>>

Dec_AcAbility(d) ==
  IF Len(d) = 0 THEN [k |-> "AcAbilityRequest", ac_number |-> <<65, 76, 76>>]     \* "ALL"
  ELSE IF Len(d) = 1 THEN [k |-> "AcAbilityRequest", ac_number |-> d[1]]
  ELSE LET w == AbilityWalk(d, 0, <<>>)
       IN IF w = <<>> THEN Undecodable("AcAbility following lengths do not add up")
          ELSE [k |-> "AcAbilityMessage",
                ac_abilities |-> [i \in 1..Len(w) |-> AbilityRec(SubSeq(d, w[i] + 1, w[i] + 2 + d[w[i] + 2]))]]

Soft_AcAbility(d) == Bad_AcAbility(d)

----------------------------------------------------------------------------
\* 4e-iii  Group name (0xFF 0x12).  Request: "0xFF 0x12" (all groups, the document's second
\* example) or "0xFF 0x12 [0-15]" (one group).  Response: Byte3 group number, Byte4-11 name (8
\* bytes, 0-terminated if shorter), repeated: "2 groups will receive 20(2+9+9) bytes data".
\* Python shape: Mapping[int, str] -> <<group, name>> pairs sorted by group number.  The document
\* says nothing about a group number occurring twice; the records are read in order and the last
\* one stands (a later report supersedes an earlier one).

GroupNameRec(d, i) == << d[9 * i - 8], CString(SubSeq(d, 9 * i - 7, 9 * i)) >>

Bad_GroupNames(d) == Len(d) >= 2 /\ Len(d) % 9 # 0

GroupNamePairs(d) ==
  LET n    == Len(d) \div 9
      last == [i \in 1..n |-> \A j \in (i + 1)..n : d[9 * j - 8] # d[9 * i - 8]]
      keep == SelectSeq([i \in 1..n |-> i], LAMBDA i : last[i])
  IN SortSeq([j \in 1..Len(keep) |-> GroupNameRec(d, keep[j])], LAMBDA a, b : a[1] < b[1])

Dec_GroupNames(d) ==
  IF Len(d) = 0 THEN [k |-> "GroupNamesRequest", group_number |-> <<65, 76, 76>>]  \* "ALL"
  ELSE IF Len(d) = 1 THEN [k |-> "GroupNamesRequest", group_number |-> d[1]]
  ELSE IF Bad_GroupNames(d) THEN Undecodable("GroupNames length not a multiple of 9")
  ELSE [k |-> "GroupNamesMessage", group_names |-> GroupNamePairs(d)]

Soft_GroupNames(d) == Bad_GroupNames(d)

----------------------------------------------------------------------------
\* Quick timer (0xFF 0x20), client -> console.  NOT IN THE VENDOR DOCUMENT.  Layout source:
\* pyairtouch/at4/comms/x1FFF20_quick_timer.py (docstrings: "turning an AC on/off a set number of
\* hours/minutes in the future", "Resolution is to the nearest minute", comment "supports a quick
\* timer setting of up to 255 hours") and tests/at4/comms/test_x1FFF20_quick_timer.py:
\*   01 00 02 03 = AC 1, off timer, 2 h 3 min;  01 01 02 03 = on timer;  01 01 ff 3b = 255 h 59 min
\* Four bytes: AC number, timer type (0 off timer, 1 on timer), hours, minutes.  No source gives a
\* meaning to any other timer type -> "NA".  Duration as datetime.timedelta(hours, minutes),
\* normalised to days/seconds the way timedelta does.

TimerType(c) == CASE c = 0 -> "OFF_TIMER" [] c = 1 -> "ON_TIMER" [] OTHER -> "NA"

Bad_QuickTimer(d) == Len(d) # 4

Dec_QuickTimer(d) ==
  IF Bad_QuickTimer(d) THEN Undecodable("QuickTimer length")
  ELSE LET secs == d[3] * 3600 + d[4] * 60
       IN [k |-> "QuickTimerMessage", ac_number |-> d[1], timer_type |-> TimerType(d[2]),
           duration |-> [k |-> "timedelta", d |-> secs \div 86400, s |-> secs % 86400, us |-> 0]]

Soft_QuickTimer(d) == Bad_QuickTimer(d) \/ d[2] > 1

----------------------------------------------------------------------------
\* 4e-iv  Console version (0xFF 0x30).  Request: "data 0xFF 0x30".  Response: Byte3 update sign
\* ("0-latest version, Other-new version available"), Byte4 version string length, Byte5.. versions,
\* "Two consoles separated by" '|' (0x7c in the document's example "1.3.3|1.3.3").
\* The announced length must be exactly the bytes present.  An empty string gives one empty version
\* (nothing in the document says otherwise; it is also what Python's "".split("|") returns).

Bad_ConsoleVersion(d) == Len(d) = 1 \/ (Len(d) >= 2 /\ Len(d) # 2 + d[2])

Dec_ConsoleVersion(d) ==
  IF Len(d) = 0 THEN [k |-> "ConsoleVersionRequest"]
  ELSE IF Bad_ConsoleVersion(d) THEN Undecodable("ConsoleVersion length")
  ELSE [k |-> "ConsoleVersionMessage", update_available |-> d[1] # 0, versions |-> Split(From(d, 3), 124)]

Soft_ConsoleVersion(d) == Bad_ConsoleVersion(d)

----------------------------------------------------------------------------
\* 4e  Extended message (0x1F): "The first two bytes of the data are used to specify the specific
\* command."  Fewer than two bytes is not an extended message at all.

SubId(p) == p[1] * 256 + p[2]

Dec_ExtendedSub(id, d) ==
  CASE id = 65296 -> Dec_AcError(d)           \* 0xFF10
    [] id = 65297 -> Dec_AcAbility(d)         \* 0xFF11
    [] id = 65298 -> Dec_GroupNames(d)        \* 0xFF12
    [] id = 65312 -> Dec_QuickTimer(d)        \* 0xFF20
    [] id = 65328 -> Dec_ConsoleVersion(d)    \* 0xFF30
    [] OTHER -> [k |-> "UnsupportedMessage", unsupported_id |-> id, raw_data |-> d]

Dec_Extended(p) ==
  IF Len(p) < 2 THEN Undecodable("Extended message without command bytes")
  ELSE LET sub == Dec_ExtendedSub(SubId(p), From(p, 3))
       IN IF sub.k = "Undecodable" THEN sub
          ELSE [k |-> "ExtendedMessage", sub_message |-> sub]

Soft_Extended(p) ==
  \/ Len(p) < 2
  \/ /\ Len(p) >= 2
     /\ LET id == SubId(p)
            d  == From(p, 3)
        IN CASE id = 65296 -> Soft_AcError(d)
             [] id = 65297 -> Soft_AcAbility(d)
             [] id = 65298 -> Soft_GroupNames(d)
             [] id = 65312 -> Soft_QuickTimer(d)
             [] id = 65328 -> Soft_ConsoleVersion(d)
             [] OTHER -> FALSE

----------------------------------------------------------------------------
\* 3d  Message type.  "Ignore any other received type" -> UnsupportedMessage with the raw data.

ReadMsg(type, payload) ==
  CASE type = 42 -> Dec_GroupControl(payload)     \* 0x2A
    [] type = 43 -> Dec_GroupStatus(payload)      \* 0x2B
    [] type = 44 -> Dec_AcControl(payload)        \* 0x2C
    [] type = 45 -> Dec_AcStatus(payload)         \* 0x2D
    [] type = 54 -> Dec_AcTimerControl(payload)   \* 0x36
    [] type = 55 -> Dec_AcTimerStatus(payload)    \* 0x37
    [] type = 31 -> Dec_Extended(payload)         \* 0x1F
    [] OTHER -> [k |-> "UnsupportedMessage", unsupported_id |-> type, raw_data |-> payload]

\* The reading of an AirTouch 4 payload does not depend on the address bytes.
ReadMsgTo(to, type, payload) == ReadMsg(type, payload)

\* TRUE iff ReadMsg(type, payload) is Undecodable or contains "NA" (or, 0x2A only, carries a code
\* the document leaves without any meaning, see Undoc_GroupControl).
SoftMsg(type, payload) ==
  CASE type = 42 -> Soft_GroupControl(payload)
    [] type = 43 -> Soft_GroupStatus(payload)
    [] type = 44 -> Soft_AcControl(payload)
    [] type = 45 -> Soft_AcStatus(payload)
    [] type = 54 -> Soft_AcTimerControl(payload)
    [] type = 55 -> Soft_AcTimerStatus(payload)
    [] type = 31 -> Soft_Extended(payload)
    [] OTHER -> FALSE

----------------------------------------------------------------------------
\* Anchors: the worked examples of the vendor document, read with the document's own commentary.
\* (Checked by tools/wiredev_at4/DevCheck.tla; independent of the Python code.)

DocExamples ==
  \* 4a "Turn off the second group" 01 02 00 00
  /\ Dec_GroupControl(<<1, 2, 0, 0>>) =
       [k |-> "GroupControlMessage", group_number |-> 1, power |-> "TURN_OFF",
        control_method |-> "UNCHANGED", setting |-> <<>>]
  \* 4a "Set first group to percentage control" 00 10 00 00
  /\ Dec_GroupControl(<<0, 16, 0, 0>>).control_method = "DAMPER"
  \* 4b request
  /\ Dec_GroupStatus(<<>>) = [k |-> "GroupStatusRequest"]
  \* 4b two groups: 40 64 00 00 ff 00 / 41 e4 1a 80 61 80: "open percentage 100", "setpoint 26",
  \* "Current Temperature: 28"
  /\ LET m == Dec_GroupStatus(<<64, 100, 0, 0, 255, 0, 65, 228, 26, 128, 97, 128>>)
     IN /\ Len(m.groups) = 2
        /\ m.groups[1].group_number = 0 /\ m.groups[1].power_state = "ON"
        /\ m.groups[1].damper_percentage = 100 /\ m.groups[1].temperature = <<>>
        /\ m.groups[1].control_method = "DAMPER" /\ ~m.groups[1].has_sensor
        /\ m.groups[2].group_number = 1 /\ m.groups[2].damper_percentage = 100
        /\ m.groups[2].control_method = "TEMPERATURE" /\ m.groups[2].has_sensor
        /\ m.groups[2].set_point = <<26>> /\ m.groups[2].temperature = <<28000>>
  \* 4c "Turn off the second AC" 81 ff 3f 00
  /\ Dec_AcControl(<<129, 255, 63, 0>>) =
       [k |-> "AcControlMessage", ac_number |-> 1, power |-> "TURN_OFF", mode |-> "UNCHANGED",
        fan_speed |-> "UNCHANGED", set_point_control |-> <<>>]
  \* 4c "Set the first AC to cool mode" 00 40 3f 00  (fan nibble 0 = "Set to auto" by the table)
  /\ Dec_AcControl(<<0, 64, 63, 0>>).mode = "COOL" /\ Dec_AcControl(<<0, 64, 63, 0>>).power = "UNCHANGED"
  \* 4d two ACs: "AC 0 is in cool mode and low fan speed and no error", setpoint 26, 28 degC;
  \* "AC 1 is off, and error occurred"
  /\ LET m == Dec_AcStatus(<<64, 66, 26, 0, 97, 128, 0, 0, 1, 0, 26, 0, 97, 128, 255, 254>>)
     IN /\ Len(m.ac_status) = 2
        /\ m.ac_status[1] = [k |-> "AcStatusData", ac_number |-> 0, power_state |-> "ON", mode |-> "COOL",
                             fan_speed |-> "LOW", spill_active |-> FALSE, timer_set |-> FALSE,
                             set_point |-> 26, temperature |-> <<28000>>, error_code |-> 0]
        /\ m.ac_status[2].ac_number = 1 /\ m.ac_status[2].power_state = "OFF"
        /\ m.ac_status[2].error_code # 0 /\ m.ac_status[2].temperature = <<28000>>
  \* 4e-i request of AC 0; response example.  The document's example announces following length
  \* 0x16 but shows 24 following bytes (and a frame length 0x1a for 28 data bytes): it predates
  \* the v1.5 change and is inconsistent with itself; it is anchored here with the length byte
  \* corrected to 0x18.  "4 groups, start with group 0", "cool, heat, dry, auto modes", "low, mid,
  \* high, auto fan speeds", "Minimum setpoint is 17, maximum setpoint is 31", "Group 1, 2, 3 are
  \* visible" (document numbering from 1 = group numbers 0, 1, 2).
  /\ Dec_Extended(<<255, 17, 0>>) = [k |-> "ExtendedMessage", sub_message |-> [k |-> "AcAbilityRequest", ac_number |-> 0]]
  /\ LET m == Dec_Extended(<<255, 17, 0, 24, 85, 78, 73, 84, 0, 0, 0, 0, 0, 0, 0, 0, 0, 0, 0, 0,
                             0, 4, 23, 29, 17, 31, 7, 0>>)
         a == m.sub_message.ac_abilities[1]
     IN /\ a.ac_number = 0 /\ a.ac_name = <<85, 78, 73, 84>> /\ a.start_group = 0 /\ a.group_count = 4
        /\ a.ac_mode_support = [AUTO |-> TRUE, HEAT |-> TRUE, DRY |-> TRUE, FAN |-> FALSE, COOL |-> TRUE] @@ Unchanged
        /\ a.fan_speed_support = [AUTO |-> TRUE, QUIET |-> FALSE, LOW |-> TRUE, MEDIUM |-> TRUE, HIGH |-> TRUE,
                                  POWERFUL |-> FALSE, TURBO |-> FALSE] @@ Unchanged
        /\ a.min_set_point = 17 /\ a.max_set_point = 31 /\ a.groups = << <<0, 1, 2>> >>
  \* 4e-ii request / "ER: FFFE"
  /\ Dec_Extended(<<255, 16, 0>>).sub_message = [k |-> "AcErrorInformationRequest", ac_number |-> 0]
  /\ Dec_Extended(<<255, 16, 0, 8, 69, 82, 58, 32, 70, 70, 70, 69>>).sub_message =
       [k |-> "AcErrorInformationMessage", ac_number |-> 0, error_info |-> << <<69, 82, 58, 32, 70, 70, 70, 69>> >>]
  \* 4e-iii requests / "Group1" / Living, Kitchen, Bedroom
  /\ Dec_Extended(<<255, 18, 0>>).sub_message = [k |-> "GroupNamesRequest", group_number |-> 0]
  /\ Dec_Extended(<<255, 18>>).sub_message = [k |-> "GroupNamesRequest", group_number |-> <<65, 76, 76>>]
  /\ Dec_Extended(<<255, 18, 0, 71, 114, 111, 117, 112, 49, 0, 0>>).sub_message.group_names =
       << <<0, <<71, 114, 111, 117, 112, 49>> >> >>
  /\ Dec_Extended(<<255, 18, 0, 76, 105, 118, 105, 110, 103, 0, 0, 1, 75, 105, 116, 99, 104, 101, 110, 0,
                    2, 66, 101, 100, 114, 111, 111, 109, 0>>).sub_message.group_names =
       << <<0, <<76, 105, 118, 105, 110, 103>> >>, <<1, <<75, 105, 116, 99, 104, 101, 110>> >>,
          <<2, <<66, 101, 100, 114, 111, 111, 109>> >> >>
  \* 4e-iv request / "Latest", "1.3.3|1.3.3"
  /\ Dec_Extended(<<255, 48>>).sub_message = [k |-> "ConsoleVersionRequest"]
  /\ Dec_Extended(<<255, 48, 0, 11, 49, 46, 51, 46, 51, 124, 49, 46, 51, 46, 51>>).sub_message =
       [k |-> "ConsoleVersionMessage", update_available |-> FALSE,
        versions |-> << <<49, 46, 51, 46, 51>>, <<49, 46, 51, 46, 51>> >>]
=============================================================================
