--------------------------- MODULE ClientContract ---------------------------
(***************************************************************************)
(* L1 contract of the unified API client (AirTouch4 / AirTouch5 objects),  *)
(* over external events only: public calls and returns, frames written to  *)
(* and fed from the simulated console (read by the reference wire layer),  *)
(* subscriber callbacks, snapshots of the public object model, virtual     *)
(* time.  A monitor: CStep(cs, ev) consumes one abstract event and records *)
(* the clauses it breaks.  Serves C04 C08 C09 C10 C11 C12 C14 C15 C19.     *)
(*                                                                         *)
(*  phase   idle -> init (handshake, six requests, one at a time, fixed    *)
(*          order) -> ready (initialised)                                  *)
(*  Every frame the client writes must be EXPLAINED: the next handshake    *)
(*  request, a refresh request after a reconnection, a heartbeat, an       *)
(*  error-detail request after an AC report with an error code, an AT4     *)
(*  group poll, or the single frame of a pending public command.           *)
(***************************************************************************)
EXTENDS Naturals, Integers, Sequences, SequencesExt, FiniteSets, FiniteSetsExt, TLC, TLCExt, WireMatch, ApiModel

CONSTANTS HB_INTERVAL, HB_TIMEOUT, POLL_INTERVAL, INIT_TIMEOUT     \* ms: 300000, 330000, 300000, 5000

HS == <<"version", "names", "ability", "acstatus", "timer", "zonestatus">>

CS0(proto) ==
  [proto |-> proto, now |-> 0, n |-> 0, phase |-> "idle", everShut |-> FALSE,
   answered |-> 0, step |-> 0, t0 |-> 0, initId |-> 0, initRet |-> "none",
   up |-> FALSE, upSince |-> 0, steady |-> FALSE,
   acs |-> <<>>, zones |-> <<>>, version |-> <<>>,
   cmds |-> <<>>,                      \* pending public commands
   refresh |-> <<>>, errreq |-> {},    \* explained internal frames that are due
   pendrx |-> <<>>, laterx |-> <<>>,    \* frames fed and not yet handed to subscribers (current / ended connections)
   nstall |-> 0, stale |-> <<>>,                     \* refresh requests of an earlier connection that the socket may still hold
   hbDl |-> 0, hbPrev |-> -1, beatDl |-> 0, beaten |-> FALSE, pollDl |-> 0, pollPrev |-> -1, polled |-> FALSE, causes |-> 0,
   subs |-> <<>>,                      \* active subscriptions [who, target, kind]
   must |-> {}, mustnot |-> {}, seen |-> <<>>, obl |-> FALSE,
   viol |-> <<>>]

CV(cs, clause) == [cs EXCEPT !.viol = IF Len(@) < 8 THEN Append(@, <<clause, cs.n>>) ELSE @]

Sub(m) == IF IsWrapper(m.k) THEN m.sub_message ELSE m
IsAll(x) == Eq(x, <<65, 76, 76>>)

\* what a written frame asks for
ReqKind(m) ==
  LET s == Sub(m)
  IN CASE s.k = "ConsoleVersionRequest" -> "version"
       [] s.k \in {"GroupNamesRequest", "ZoneNamesRequest"} -> "names"
       [] s.k = "AcAbilityRequest" -> "ability"
       [] s.k = "AcStatusRequest" -> "acstatus"
       [] s.k = "AcTimerStatusRequest" -> "timer"
       [] s.k \in {"GroupStatusRequest", "ZoneStatusRequest"} -> "zonestatus"
       [] s.k = "AcErrorInformationRequest" -> "errreq"
       [] OTHER -> "command"

\* what a fed frame answers (to = header to-address; docs/design.md: an AT5 console without zones
\* echoes the zone names / zone status request, addressed to the client 0xB0)
AnsKind(proto, m, to) ==
  LET s == Sub(m)
  IN CASE s.k = "ConsoleVersionMessage" -> "version"
       [] s.k \in {"GroupNamesMessage", "ZoneNamesMessage"} -> "names"
       [] s.k = "ZoneNamesRequest" /\ proto = "at5" /\ to = 176 -> "names"
       [] s.k = "AcAbilityMessage" -> "ability"
       [] s.k = "AcStatusMessage" -> "acstatus"
       [] s.k = "AcTimerStatusMessage" -> "timer"
       [] s.k \in {"GroupStatusMessage", "ZoneStatusMessage"} -> "zonestatus"
       [] s.k = "ZoneStatusRequest" /\ proto = "at5" /\ to = 176 -> "zonestatus"
       [] s.k = "AcErrorInformationMessage" -> "err"
       [] OTHER -> "other"

-----------------------------------------------------------------------------
(* the object model: what the console has described *)

Span(a, n) == [i \in 1..n |-> a + i - 1]
ZoneIds(cs) == {cs.zones[i].id : i \in 1..Len(cs.zones)}

\* C09: zones of an AC. AT4: group bitmap if present, else all zones when there is one AC, else
\* start/count; AT5: start/count.
AcZones(cs, ab, nAcs) ==
  IF cs.proto = "at4"
  THEN IF ~Eq(ab.groups, <<>>) THEN ab.groups[1]
       ELSE IF nAcs = 1 THEN SetToSortSeq(ZoneIds(cs), LAMBDA x, y : x < y)
       ELSE Span(ab.start_group, ab.group_count)
  ELSE Span(ab.start_zone, ab.zone_count)

ApplyNames(cs, s) ==
  LET prs == IF s.k \in {"GroupNamesMessage", "ZoneNamesMessage"}
             THEN (IF s.k = "GroupNamesMessage" THEN s.group_names ELSE s.zone_names) ELSE <<>>
  IN [cs EXCEPT !.zones = [i \in 1..Len(prs) |-> [id |-> prs[i][1], name |-> prs[i][2], status |-> <<>>]]]

ApplyAbility(cs, s) ==
  LET abs == s.ac_abilities
  IN [cs EXCEPT !.acs = [i \in 1..Len(abs) |->
        [n |-> abs[i].ac_number, ability |-> abs[i], status |-> <<>>, timer |-> <<>>, err |-> <<>>,
         zones |-> AcZones(cs, abs[i], Len(abs))]]]

AcIdx(cs, n)   == {i \in 1..Len(cs.acs) : cs.acs[i].n = n}
ZoneIdx(cs, n) == {i \in 1..Len(cs.zones) : cs.zones[i].id = n}

RECURSIVE ApplyRecs(_, _, _)
\* records of a status frame are applied in order (a later record for the same entity wins)
ApplyRecs(cs, kind, recs) ==
  IF recs = <<>> THEN cs
  ELSE LET r == Head(recs)
           c1 == CASE kind = "acstatus" ->
                        LET ix == AcIdx(cs, r.ac_number)
                        IN IF ix = {} THEN cs
                           ELSE LET i == Min(ix)
                                IN [cs EXCEPT !.acs[i].status = r,
                                              \* "error details appear only while an error code is present": a
                                              \* changed report without error code clears the detail text
                                              !.acs[i].err = IF r.error_code = 0 /\ ~Eq(r, cs.acs[i].status) THEN <<>> ELSE @]
                    [] kind = "timer" ->
                        LET ix == AcIdx(cs, r.ac_number)
                        IN IF ix = {} THEN cs ELSE [cs EXCEPT !.acs[Min(ix)].timer = r]
                    [] kind = "zonestatus" ->
                        LET zn == IF cs.proto = "at4" THEN r.group_number ELSE r.zone_number
                            ix == ZoneIdx(cs, zn)
                        IN IF ix = {} THEN cs ELSE [cs EXCEPT !.zones[Min(ix)].status = r]
                    [] OTHER -> cs
       IN ApplyRecs(c1, kind, Tail(recs))

StatusRecs(s) == CASE s.k = "AcStatusMessage" -> s.ac_status
                   [] s.k = "AcTimerStatusMessage" -> s.ac_timer_status
                   [] s.k = "GroupStatusMessage" -> s.groups
                   [] s.k = "ZoneStatusMessage" -> s.zones
                   [] OTHER -> <<>>

ApplyAnswer(cs, kind, s) ==
  CASE kind = "version" -> [cs EXCEPT !.version = s]
    [] kind = "names" -> ApplyNames(cs, s)
    [] kind = "ability" -> ApplyAbility(cs, s)
    [] kind \in {"acstatus", "timer", "zonestatus"} -> ApplyRecs(cs, kind, StatusRecs(s))
    [] kind = "err" ->
         LET ix == AcIdx(cs, s.ac_number)
         IN IF ix = {} THEN cs ELSE [cs EXCEPT !.acs[Min(ix)].err = s.error_info]
    [] OTHER -> cs

\* expected snapshots (ApiModel)
ZoneStateOf(cs, id) == LET ix == ZoneIdx(cs, id) IN cs.zones[Min(ix)]
AcSnapOf(cs, i) ==
  LET a  == cs.acs[i]
      zs == SelectSeq(a.zones, LAMBDA z : ZoneIdx(cs, z) # {})
  IN AcSnap(cs.proto, a, [k \in 1..Len(zs) |-> ZoneSnap(cs.proto, ZoneStateOf(cs, zs[k]))])

-----------------------------------------------------------------------------
(* snapshots: C10 / C09 *)

ZoneAttrs == {"zone_id", "name", "supported_power_states", "power_state", "control_method", "has_temp_sensor",
              "sensor_battery_status", "current_temperature", "target_temperature",
              "target_temperature_resolution", "current_damper_percentage", "spill_active"}
AcAttrs == {"ac_id", "name", "supported_power_controls", "supported_modes", "supported_fan_speeds", "power_state",
            "selected_mode", "active_mode", "selected_fan_speed", "active_fan_speed", "current_temperature",
            "target_temperature", "target_temperature_resolution", "min_target_temperature",
            "max_target_temperature", "spill_state", "on_timer", "off_timer", "error_info"}

BadZoneAttrs(exp, obs) == {f \in ZoneAttrs : ~AttrOK(exp[f], obs[f])}
BadAcAttrs(exp, obs) ==
  {f \in AcAttrs : ~AttrOK(exp[f], obs[f])}
  \* the statements fix which zones belong to an AC, not their order: matched by zone id
  \cup (IF Len(exp.zones) # Len(obs.zones) THEN {"zones"}
        ELSE UNION {LET m == {j \in 1..Len(obs.zones) : AttrOK(exp.zones[k].zone_id, obs.zones[j].zone_id)}
                    IN IF m = {} THEN {"zones"} ELSE BadZoneAttrs(exp.zones[k], obs.zones[Min(m)])
                    : k \in 1..Len(exp.zones)})

SnapshotBad(cs, obs) ==
  LET init == [v |-> cs.phase = "ready"]
      top  == (IF AttrOK(init, obs.initialised) THEN {} ELSE {"initialised"})
              \cup (IF cs.phase = "ready" /\ ~Eq(cs.version, <<>>)
                    THEN (IF AttrOK([v |-> cs.version.update_available], obs.update_available) THEN {} ELSE {"update_available"})
                         \cup (IF AttrOK([v |-> cs.version.versions], obs.console_versions) THEN {} ELSE {"console_versions"})
                    ELSE {})
  IN IF cs.phase # "ready" THEN top
     ELSE IF Len(obs.air_conditioners) # Len(cs.acs) THEN top \cup {"air_conditioners"}
     ELSE top \cup UNION {BadAcAttrs(AcSnapOf(cs, i), obs.air_conditioners[i]) : i \in 1..Len(cs.acs)}

Snapshot(cs, ev) ==
  LET bad == SnapshotBad(cs, ev.model)
  IN IF bad = {} THEN cs
     ELSE IF cs.everShut /\ cs.phase = "idle" THEN CV(cs, "StateAfterShutdown")
     ELSE IF cs.phase = "ready" THEN CV(cs, "SnapshotMismatch:" \o (CHOOSE f \in bad : TRUE))
     ELSE CV(cs, "InitialisedWrong")

-----------------------------------------------------------------------------
(* notifications: C12 *)

SubsOn(cs, target, kind) == {i \in 1..Len(cs.subs) : cs.subs[i].target = target /\ cs.subs[i].kind = kind}
Whos(cs, S) == {cs.subs[i].who : i \in S}

AcTarget(n) == "ac:" \o ToString(n)
ZoneTarget(n) == "zone:" \o ToString(n)

\* close the obligations of the previous frame
Settle(cs) ==
  IF ~cs.obl \/ cs.nstall > 0 THEN cs      \* during a stall the client may be waiting on its own write
  ELSE LET cnt(w) == Cardinality({j \in 1..Len(cs.seen) : cs.seen[j] = w})
           c1 == IF \E w \in cs.must : cnt(w) = 0 THEN CV(cs, "MissedNotification") ELSE cs
           c2 == IF \E w \in cs.mustnot : cnt(w) > 0 THEN CV(c1, "SpuriousNotification") ELSE c1
       IN [c2 EXCEPT !.obl = FALSE, !.must = {}, !.mustnot = {}, !.seen = <<>>]

\* obligations created by a fed frame: before/after states of the object model
Oblige(old, new) ==
  LET acCh(i)  == ~Eq(AcSnapNoZones(old.proto, old.acs[i]), AcSnapNoZones(new.proto, new.acs[i]))
      acSame(i) == Eq(old.acs[i], new.acs[i])
      \* a zone change must be notified only if it shows under both acceptable readings of the record
      \* (with and without the values the library withholds for a zone without sensor)
      gk       == IF new.proto = "at4" THEN "GroupStatusMessage" ELSE "ZoneStatusMessage"
      gz(z)    == IF Eq(z.status, <<>>) THEN z ELSE [z EXCEPT !.status = GateRec(gk, z.status)]
      zCh(j)   == /\ ~Eq(ZoneSnap(old.proto, old.zones[j]), ZoneSnap(new.proto, new.zones[j]))
                  /\ ~Eq(ZoneSnap(old.proto, gz(old.zones[j])), ZoneSnap(new.proto, gz(new.zones[j])))
      zSame(j) == Eq(old.zones[j], new.zones[j])
      zonesOf(i) == {j \in 1..Len(new.zones) : \E k \in 1..Len(new.acs[i].zones) : new.acs[i].zones[k] = new.zones[j].id}
      sameShape == Len(old.acs) = Len(new.acs) /\ Len(old.zones) = Len(new.zones)
      verCh == ~Eq(old.version, new.version)
      must == IF ~sameShape THEN {}
              ELSE UNION {IF acCh(i) THEN Whos(new, SubsOn(new, AcTarget(new.acs[i].n), "ac") \cup SubsOn(new, AcTarget(new.acs[i].n), "ac_state"))
                          ELSE {} : i \in 1..Len(new.acs)}
                   \cup UNION {IF \E j \in zonesOf(i) : zCh(j) THEN Whos(new, SubsOn(new, AcTarget(new.acs[i].n), "ac")) ELSE {} : i \in 1..Len(new.acs)}
                   \cup UNION {IF zCh(j) THEN Whos(new, SubsOn(new, ZoneTarget(new.zones[j].id), "zone")) ELSE {} : j \in 1..Len(new.zones)}
                   \cup (IF verCh THEN Whos(new, SubsOn(new, "airtouch", "airtouch")) ELSE {})
      mustnot == IF ~sameShape THEN {}
                 ELSE UNION {IF acSame(i) /\ \A j \in zonesOf(i) : zSame(j)
                             THEN Whos(new, SubsOn(new, AcTarget(new.acs[i].n), "ac")) ELSE {} : i \in 1..Len(new.acs)}
                      \cup UNION {IF acSame(i) THEN Whos(new, SubsOn(new, AcTarget(new.acs[i].n), "ac_state")) ELSE {} : i \in 1..Len(new.acs)}
                      \cup UNION {IF zSame(j) THEN Whos(new, SubsOn(new, ZoneTarget(new.zones[j].id), "zone")) ELSE {} : j \in 1..Len(new.zones)}
                      \cup (IF ~verCh THEN Whos(new, SubsOn(new, "airtouch", "airtouch")) ELSE {})
  \* frames fed back to back are judged together (their callbacks cannot be told apart): duties add
  \* up, prohibitions hold only if every one of the frames prohibits
  IN IF old.obl
     \* one callback may hold several subscriptions (all updates and AC state of the same unit): it is
     \* owed a call if any of them is, and forbidden one only if all of them are
     THEN LET mu == old.must \cup must
          IN [new EXCEPT !.must = mu, !.mustnot = (old.mustnot \cap mustnot) \ mu]
     ELSE [new EXCEPT !.obl = TRUE, !.must = must, !.mustnot = mustnot \ must, !.seen = <<>>]

Callback(cs, ev) ==
  LET ix == {i \in 1..Len(cs.subs) : cs.subs[i].who = ev.who}
  IN IF ix = {} THEN CV(cs, "NotifiedAfterUnsubscribe")
     ELSE LET s == cs.subs[Min(ix)]
              idOK == CASE s.kind \in {"ac", "ac_state"} -> s.target = AcTarget(ev.id)
                        [] s.kind = "zone" -> s.target = ZoneTarget(ev.id)
                        [] OTHER -> TRUE
              c1 == IF idOK THEN cs ELSE CV(cs, "WrongNotificationId")
          IN [c1 EXCEPT !.seen = Append(@, ev.who)]

-----------------------------------------------------------------------------
(* frames fed by the console *)

Consume(cs, ev) ==
  LET rd  == ev.alts[1]
      m   == rd.msg
      ans == AnsKind(cs.proto, m, rd.hdr.to_address)
      s   == Sub(m)
  IN IF ev.soft THEN cs                       \* undocumented codes: the client may drop the frame
     ELSE IF cs.phase = "init"
     THEN IF cs.answered < 6 /\ ans = HS[cs.answered + 1]
          THEN LET c1 == ApplyAnswer(cs, ans, s)
                   c2 == [c1 EXCEPT !.answered = @ + 1]
               IN IF c2.answered = 6
                  THEN [c2 EXCEPT !.phase = "ready", !.hbDl = cs.now + HB_TIMEOUT, !.beatDl = cs.now, !.beaten = FALSE,
                                  !.pollDl = cs.now + POLL_INTERVAL, !.polled = FALSE, !.steady = TRUE,
                                  !.errreq = {c1.acs[i].n : i \in {j \in 1..Len(c1.acs) : ~Eq(c1.acs[j].status, <<>>) /\ c1.acs[j].status.error_code # 0}}]
                  ELSE [c2 EXCEPT !.errreq = @ \cup (IF ans = "acstatus"
                                                     THEN {c1.acs[i].n : i \in {j \in 1..Len(c1.acs) : ~Eq(c1.acs[j].status, <<>>) /\ c1.acs[j].status.error_code # 0}}
                                                     ELSE {})]
          ELSE IF ans = "err" THEN ApplyAnswer(cs, ans, s) ELSE cs
     ELSE IF cs.phase = "ready"
     THEN IF ans \in {"acstatus", "timer", "zonestatus", "err", "version"}
          THEN LET c1 == ApplyAnswer(cs, ans, s)
                   newErr == IF ans = "acstatus"
                             THEN {c1.acs[i].n : i \in {j \in 1..Len(c1.acs) :
                                      ~Eq(c1.acs[j].status, <<>>) /\ c1.acs[j].status.error_code # 0
                                      /\ ~Eq(c1.acs[j].status, cs.acs[j].status)}}
                             ELSE {}
                   c2 == [c1 EXCEPT !.errreq = @ \cup newErr,
                                    \* a response at the very instant of a deadline: either order is acceptable
                                    !.hbPrev = IF ans = "version" /\ cs.hbDl # cs.now + HB_TIMEOUT THEN cs.hbDl ELSE @,
                                    !.pollPrev = IF ans = "zonestatus" /\ cs.proto = "at4" /\ cs.pollDl # cs.now + POLL_INTERVAL THEN cs.pollDl ELSE @,
                                    !.hbDl = IF ans = "version" THEN cs.now + HB_TIMEOUT ELSE @,
                                    !.pollDl = IF ans = "zonestatus" /\ cs.proto = "at4" THEN cs.now + POLL_INTERVAL ELSE @,
                                    !.polled = IF ans = "zonestatus" /\ cs.proto = "at4" THEN FALSE ELSE @]
               IN Oblige(cs, c2)
          ELSE cs
     ELSE cs

\* A frame the console sent takes effect when the socket hands it to its subscribers (the `deliver`
\* event of the script's own message subscriber): a frame still in the receive buffer when the
\* connection ends never reaches the API layer.  What takes effect is the REFERENCE reading of the
\* bytes fed, not what the decoder delivered.
RxFrame(cs, ev) == [cs EXCEPT !.pendrx = Append(@, ev)]

SameRd(a, b) == TLCFP(a) = TLCFP(b)
RxMatch(f, rd) == f.soft \/ \E a \in 1..Len(f.alts) : SameRd(f.alts[a], rd)
DropAtK(q, k) == SubSeq(q, 1, k - 1) \o SubSeq(q, k + 1, Len(q))
DeliverApi(cs, ev) ==
  IF cs.pendrx # <<>> /\ RxMatch(Head(cs.pendrx), ev.rd)
  THEN Consume([cs EXCEPT !.pendrx = Tail(@)], Head(cs.pendrx))
  ELSE LET ks == {k \in 1..Len(cs.laterx) : RxMatch(cs.laterx[k], ev.rd)}
       IN IF ks # {} THEN Consume([cs EXCEPT !.laterx = DropAtK(@, Min(ks))], cs.laterx[Min(ks)])
          ELSE IF cs.pendrx # <<>> THEN Consume([cs EXCEPT !.pendrx = Tail(@)], Head(cs.pendrx))   \* (a misread frame: C13 / C05 judge that)
          ELSE cs
\* the connection ended: frames not yet handed over may still surface from the old read loop, or never
EndRx(cs) == [cs EXCEPT !.laterx = (IF Len(@) > 4 THEN <<>> ELSE @) \o cs.pendrx, !.pendrx = <<>>]

-----------------------------------------------------------------------------
(* frames written by the client: every one must be explained *)

CMD_LIFE == 30000      \* lifetime of RETRY_IDEMPOTENT / RETRY_NON_IDEMPOTENT messages

HeartbeatDue(cs) == cs.phase = "ready" /\ cs.now = cs.beatDl /\ ~cs.beaten
PollDue(cs) == cs.proto = "at4" /\ cs.phase = "ready" /\ (cs.now = cs.pollDl \/ cs.now = cs.pollPrev) /\ ~cs.polled

\* a command whose frame content is undetermined (exp.any) explains a frame only while the call is in
\* progress; a determined command also explains a later frame (queued while the link was down)
\* (C02: nothing is written at or after its lifetime - an expired command explains no frame)
\* (C02: after a write failure an idempotent command is written again - 2 retries - an accumulating one never)
MayWrite(c) == \/ (c.sent = 0 /\ c.att = 0) \/ c.sent = 2
               \/ (c.sent = 0 /\ c.failed /\ c.att < 3 /\ ~Eq(c.exp.nonidem, TRUE))
CmdIdx(cs, alts) == {i \in 1..Len(cs.cmds) : MayWrite(cs.cmds[i]) /\ ~Eq(cs.cmds[i].exp.reject, TRUE)
                                             /\ cs.now < cs.cmds[i].t + CMD_LIFE
                                             /\ (~cs.cmds[i].done \/ ~Eq(cs.cmds[i].exp.any, TRUE))
                                             /\ \E a \in 1..Len(alts) : CmdMatches(cs.cmds[i].exp, alts[a])}

DropFirst(q, x) == LET i == Min({j \in 1..Len(q) : q[j] = x}) IN SubSeq(q, 1, i - 1) \o SubSeq(q, i + 1, Len(q))

TxFrame(cs, ev) ==
  IF ~ev.ok THEN CV(cs, "GarbledFrame")
  ELSE IF cs.phase = "closing" THEN cs      \* shutdown() called, not returned: the statements fix nothing yet
  ELSE
  LET m    == ev.alts[1]
      kind == ReqKind(m)
      s    == Sub(m)
      hsOK == cs.phase = "init" /\ cs.step < 6 /\ kind = HS[cs.step + 1] /\ cs.answered >= cs.step
              /\ (kind \notin {"names", "ability"} \/ IsAll(IF kind = "ability" THEN s.ac_number
                                                          ELSE IF s.k = "GroupNamesRequest" THEN s.group_number ELSE s.zone_number))
      ci   == CmdIdx(cs, ev.alts)
  IN IF hsOK THEN [cs EXCEPT !.step = @ + 1]
     ELSE IF cs.refresh # <<>> /\ kind = Head(cs.refresh) THEN [cs EXCEPT !.refresh = Tail(@)]
     \* (refresh requests live 1 s - RETRY_CONNECTED: an older one explains nothing)
     ELSE IF \E i \in 1..Len(cs.stale) : cs.stale[i].k = kind /\ cs.now < cs.stale[i].t + 1000
          THEN LET i == Min({j \in 1..Len(cs.stale) : cs.stale[j].k = kind /\ cs.now < cs.stale[j].t + 1000})
               IN [cs EXCEPT !.stale = SubSeq(@, 1, i - 1) \o SubSeq(@, i + 1, Len(@))]
     ELSE IF cs.refresh # <<>> /\ cs.phase = "ready" /\ kind \in {"acstatus", "zonestatus"}
          THEN CV([cs EXCEPT !.refresh = SelectSeq(@, LAMBDA x : x # kind)], "RefreshOrder")
     ELSE IF kind = "errreq" /\ s.ac_number \in cs.errreq THEN [cs EXCEPT !.errreq = @ \ {s.ac_number}]
     ELSE IF ci # {}
          THEN \* among calls that read the same, the frame belongs to one whose message is still alive
               LET j == Min(ci)
               IN [cs EXCEPT !.cmds[j].sent = IF ev.failed THEN 0 ELSE 1, !.cmds[j].ss = cs.nstall > 0,
                             !.cmds[j].att = @ + 1, !.cmds[j].failed = ev.failed]
     ELSE IF kind = "command" /\ \E i \in 1..Len(cs.cmds) : cs.cmds[i].failed /\ Eq(cs.cmds[i].exp.nonidem, TRUE)
                                                              /\ \E a \in 1..Len(ev.alts) : CmdMatches(cs.cmds[i].exp, ev.alts[a])
          THEN CV(cs, "NonIdempotentResent")
     ELSE IF kind = "version" /\ cs.phase = "ready"
          THEN IF HeartbeatDue(cs) THEN [cs EXCEPT !.beaten = TRUE]
               ELSE CV(cs, "HeartbeatOffSchedule")
     ELSE IF kind = "zonestatus" /\ cs.proto = "at4" /\ cs.phase = "ready"
          THEN IF cs.now = cs.pollDl /\ ~cs.polled THEN [cs EXCEPT !.polled = TRUE]
               ELSE IF cs.now = cs.pollPrev THEN [cs EXCEPT !.pollPrev = -1]    \* the deadline a simultaneous report replaced
               ELSE CV(cs, "PollOffSchedule")
     ELSE IF cs.phase = "init" /\ kind \in {"version", "names", "ability", "acstatus", "timer", "zonestatus"}
          THEN CV(cs, "HandshakeOrder")
     ELSE IF kind = "command" /\ \E i \in 1..Len(cs.cmds) : cs.cmds[i].sent = 0 /\ ~Eq(cs.cmds[i].exp.reject, TRUE)
          THEN LET i == Min({j \in 1..Len(cs.cmds) : cs.cmds[j].sent = 0 /\ ~Eq(cs.cmds[j].exp.reject, TRUE)})
               IN CV([cs EXCEPT !.cmds[i].sent = 1], "WrongCommandFrame")
     ELSE IF kind = "command" /\ \E i \in 1..Len(cs.cmds) : cs.cmds[i].sent >= 1 /\ \E a \in 1..Len(ev.alts) : CmdMatches(cs.cmds[i].exp, ev.alts[a])
          THEN CV(cs, "CommandDuplicated")
     ELSE CV(cs, "UnexplainedFrame")

-----------------------------------------------------------------------------
(* public calls *)

Commands == {"set_power", "set_mode", "set_fan_speed", "set_target_temperature", "set_quick_timer",
             "clear_quick_timer", "set_damper_percentage", "check_for_updates"}

TargetNum(t) == t   \* kept symbolic: ApiModel receives the numeric id in ev.tn

CallApi(cs, ev) ==
  CASE ev.method = "init" ->
         [cs EXCEPT !.phase = "init", !.answered = 0, !.step = 0, !.t0 = cs.now, !.initId = ev.id, !.initRet = "none",
                    !.acs = <<>>, !.zones = <<>>, !.version = <<>>, !.refresh = <<>>, !.stale = <<>>, !.errreq = {},
                    \* commands accepted in an earlier life that the socket may still hold (SocketContract:
                    \* StaleHeld): they may explain a frame, they are no longer owed
                    !.cmds = [i \in 1..Len(SelectSeq(cs.cmds, LAMBDA c : c.sent = 0 /\ Eq(c.exp.reject, FALSE))) |->
                                [SelectSeq(cs.cmds, LAMBDA c : c.sent = 0 /\ Eq(c.exp.reject, FALSE))[i] EXCEPT !.stale = TRUE, !.done = TRUE]],
                    !.subs = SelectSeq(@, LAMBDA x : x.kind = "airtouch"), !.steady = FALSE]
    [] ev.method = "shutdown" ->
         [Settle(cs) EXCEPT !.phase = "closing", !.everShut = TRUE, !.steady = FALSE, !.refresh = <<>>, !.errreq = {}]
    [] ev.method \in Commands ->
         LET ai == IF ev.tk = "ac" THEN AcIdx(cs, ev.tn)
                   ELSE IF ev.tk = "zone" THEN {i \in 1..Len(cs.acs) : \E k \in 1..Len(cs.acs[i].zones) : cs.acs[i].zones[k] = ev.tn}
                   ELSE {}
             zi == IF ev.tk = "zone" THEN ZoneIdx(cs, ev.tn) ELSE {}
             a  == IF ai = {} THEN <<>> ELSE cs.acs[Min(ai)]
             z  == IF zi = {} THEN <<>> ELSE cs.zones[Min(zi)]
             ex == IF cs.phase # "ready" \/ (ev.tk = "ac" /\ ai = {}) \/ (ev.tk = "zone" /\ zi = {})
                   THEN [reject |-> "ANY", msgs |-> <<>>, nonidem |-> FALSE, any |-> TRUE]
                   ELSE Expect(cs.proto, ev, a, z)
         IN [cs EXCEPT !.cmds = Append(@, [id |-> ev.id, exp |-> ex, sent |-> 0, done |-> FALSE, ss |-> FALSE, t |-> cs.now, stale |-> FALSE,
                                           att |-> 0, failed |-> FALSE])]     \* frames seen for it; the last one was cut off by a write failure
    [] OTHER -> cs

RetApi(cs, ev) ==
  IF ev.id = cs.initId /\ cs.initRet = "none" /\ cs.phase \in {"init", "ready"}
  THEN IF ev.res # "ok" THEN CV([cs EXCEPT !.initRet = "raised"], "InitRaised")
       ELSE IF Eq(ev.val, TRUE)
       THEN IF cs.phase = "ready" THEN [cs EXCEPT !.initRet = "true"] ELSE CV([cs EXCEPT !.initRet = "true"], "InitTrueEarly")
       ELSE LET c1 == [cs EXCEPT !.initRet = "false"]
            IN IF cs.now = cs.t0 + INIT_TIMEOUT THEN c1          \* at the very instant of the deadline either outcome stands
               ELSE IF cs.phase = "ready" THEN CV(c1, "InitNotTrue")
               ELSE IF cs.now < cs.t0 + INIT_TIMEOUT THEN CV(c1, "InitEarlyFalse")
               ELSE IF cs.now > cs.t0 + INIT_TIMEOUT THEN CV(c1, "InitLate")
               ELSE c1
  ELSE IF cs.phase = "closing" /\ ev.method = "shutdown"
  THEN \* C15 speaks of shutdown() returning: it is not allowed to throw (a CancelledError of one of the
       \* client's own tasks, say) at its caller instead
       [(IF ev.res # "ok" THEN CV(cs, "ShutdownRaised") ELSE cs) EXCEPT !.phase = "idle", !.up = FALSE]
  ELSE IF cs.phase = "idle" /\ cs.everShut /\ ev.method = "check_for_updates"
  THEN IF ev.res = "NotOpenError" THEN cs ELSE CV(cs, "NotOpenNotRaised")      \* C15: sending raises the not-open error
  ELSE LET ix == {i \in 1..Len(cs.cmds) : cs.cmds[i].id = ev.id /\ ~cs.cmds[i].done}
       IN IF ix = {} THEN cs
          ELSE LET i == Min(ix)
                   c == cs.cmds[i]
                   c1 == [cs EXCEPT !.cmds[i].done = TRUE]
               IN IF Eq(c.exp.reject, "ANY") THEN c1
                  ELSE IF Eq(c.exp.reject, TRUE)
                  THEN IF ev.res # "ValueError" THEN CV(c1, "InvalidNotRefused")
                       ELSE IF c.sent > 0 THEN CV(c1, "RefusedButSent") ELSE c1
                  ELSE IF ev.res # "ok" THEN CV(c1, "ValidRefused") ELSE c1

-----------------------------------------------------------------------------
(* checkpoints *)

\* Periodic duties of an initialised client, as chains of deadlines:
\*   beatDl  next heartbeat instant (start + k * interval): a version request is written if connected;
\*   hbDl    watchdog: last response (or start, or previous expiry) + timeout: the link is reset if connected;
\*   pollDl  AT4: last group status (or start, or previous expiry) + 300 s: a group status request if connected.
\* Roll settles the instants that lie strictly before the time of the event being consumed (the
\* state still describes the link at those instants); Due settles the instant "now" at quiescence.
WasUp(cs, d) == cs.up /\ cs.upSince < d
RECURSIVE Roll(_)
Roll(cs) ==
  IF cs.phase # "ready" THEN cs
  ELSE IF cs.beatDl < cs.now
  THEN Roll([(IF WasUp(cs, cs.beatDl) /\ ~cs.beaten THEN CV(cs, "HeartbeatMissing") ELSE cs)
             EXCEPT !.beatDl = @ + HB_INTERVAL, !.beaten = FALSE])
  ELSE IF cs.hbDl < cs.now
  THEN Roll([(IF WasUp(cs, cs.hbDl) THEN CV(cs, "HeartbeatNoReset") ELSE cs) EXCEPT !.hbDl = @ + HB_TIMEOUT])
  ELSE IF cs.proto = "at4" /\ cs.pollDl < cs.now
  THEN Roll([(IF WasUp(cs, cs.pollDl) /\ ~cs.polled THEN CV(cs, "PollMissing") ELSE cs)
             EXCEPT !.pollDl = @ + POLL_INTERVAL, !.polled = FALSE])
  ELSE cs

Due(cs) ==
  IF cs.phase # "ready" THEN cs
  ELSE LET c1 == IF cs.beatDl = cs.now
                 THEN [(IF WasUp(cs, cs.now) /\ ~cs.beaten THEN CV(cs, "HeartbeatMissing") ELSE cs)
                       EXCEPT !.beatDl = @ + HB_INTERVAL, !.beaten = FALSE]
                 ELSE cs
           c2 == IF c1.hbDl = c1.now
                 THEN [(IF WasUp(c1, c1.now) THEN CV(c1, "HeartbeatNoReset") ELSE c1) EXCEPT !.hbDl = @ + HB_TIMEOUT]
                 ELSE c1
           c3 == IF c2.proto = "at4" /\ c2.pollDl = c2.now
                 THEN [(IF WasUp(c2, c2.now) /\ ~c2.polled THEN CV(c2, "PollMissing") ELSE c2)
                       EXCEPT !.pollDl = @ + POLL_INTERVAL, !.polled = FALSE]
                 ELSE c2
       IN c3

Quiesce(cs0) ==
  LET cs == Settle(cs0)
      \* C09: after answer k the request k+1 has been issued
      c1 == IF cs.phase = "init" /\ cs.up /\ cs.step # (IF cs.answered < 6 THEN cs.answered + 1 ELSE 6)
            THEN CV(cs, "HandshakeStalled") ELSE cs
      \* C09: init() outcome
      c2 == IF cs.phase = "ready" /\ cs.initRet = "none" THEN CV(c1, "InitNotTrue")
            ELSE IF cs.phase = "init" /\ cs.initRet = "none" /\ cs.now >= cs.t0 + INIT_TIMEOUT THEN CV(c1, "InitHangs")
            ELSE c1
      \* C04/C11: an accepted command has produced its single frame
      c3 == IF cs.up /\ cs.phase = "ready" /\ \E i \in 1..Len(cs.cmds) :
                   cs.cmds[i].done /\ Eq(cs.cmds[i].exp.reject, FALSE) /\ ~Eq(cs.cmds[i].exp.any, TRUE) /\ cs.cmds[i].sent = 0
                   \* a command accepted while the link was down is held for CMD_LIFE only (C02): owed while alive
                   /\ cs.now < cs.cmds[i].t + CMD_LIFE /\ ~cs.cmds[i].stale
                   \* never tried, or cut off by a write failure and idempotent (C02: re-sent on the next connection)
                   /\ (cs.cmds[i].att = 0 \/ (cs.cmds[i].failed /\ cs.cmds[i].att < 3 /\ ~Eq(cs.cmds[i].exp.nonidem, TRUE)))
            THEN CV(c2, "CommandNotSent") ELSE c2
      \* C14: refresh after reconnection, error details requested
      c4 == IF cs.up /\ cs.phase = "ready" /\ cs.refresh # <<>> THEN CV(c3, "RefreshMissing") ELSE c3
      \* C08 / C14: the periodic duties that fall due at this very instant
      c7 == Due(c4)
  IN c7

\* refresh requests issued for the connection that began at upSince and not yet seen on the wire
StaleOf(cs) == SelectSeq(cs.stale, LAMBDA x : cs.now < x.t + 1000) \o [i \in 1..Len(cs.refresh) |-> [k |-> cs.refresh[i], t |-> cs.upSince]]

\* the client closed the connection with no external cause: only a heartbeat timeout justifies it
ClientClose(cs) ==
  LET c1 == IF cs.phase = "ready" /\ cs.causes = 0
            THEN IF cs.now = cs.hbDl THEN [cs EXCEPT !.hbDl = @ + HB_TIMEOUT]
                 ELSE IF cs.now = cs.hbPrev THEN cs
                 ELSE CV(cs, "SpuriousHeartbeatReset")
            ELSE cs
  IN EndRx([c1 EXCEPT !.up = FALSE, !.steady = FALSE, !.refresh = <<>>, !.stale = StaleOf(cs)])

ConnOk(cs) ==
  [cs EXCEPT !.up = TRUE, !.upSince = cs.now, !.causes = 0, !.stale = StaleOf(cs),
             !.refresh = IF cs.phase = "ready" THEN <<"acstatus", "zonestatus">> ELSE <<>>]

CStep(cs0, ev) ==
  LET cs == Roll([cs0 EXCEPT !.now = ev.t])
      k  == ev.e
  IN CASE k = "callapi"   -> CallApi(cs, ev)
       [] k = "retapi"    -> RetApi(cs, ev)
       [] k = "txframe"   -> TxFrame(cs, ev)
       [] k = "rxframe"   -> RxFrame(cs, ev)
       [] k = "deliver"   -> DeliverApi(cs, ev)
       [] k = "connok"    -> ConnOk(cs)
       [] k = "cclose"    -> ClientClose(cs)
       [] k \in {"lost", "peereof", "rxdefect", "fault"} ->
            LET c1 == [cs EXCEPT !.causes = @ + 1, !.steady = FALSE, !.up = IF k \in {"lost"} THEN FALSE ELSE @]
            IN IF k = "lost" THEN EndRx(c1) ELSE c1
       \* a stalled connection (full send buffer) that ends takes the buffered frames with it: a command
       \* handed over during the stall MAY be sent again (sent = 2), it is not owed again
       [] k = "stall"     -> [cs EXCEPT !.nstall = @ + 1]
       [] k = "unstall"   -> [cs EXCEPT !.nstall = IF @ > 0 THEN @ - 1 ELSE 0,
                                        !.cmds = [i \in 1..Len(cs.cmds) |->
                                                    IF cs.cmds[i].ss
                                                    THEN [cs.cmds[i] EXCEPT !.ss = FALSE, !.sent = IF ev.ended /\ @ = 1 THEN 2 ELSE @]
                                                    ELSE cs.cmds[i]]]
       \* a bare HeartbeatManager (no API object, no handshake): monitoring starts / stops
       [] k = "hbstart"   -> [cs EXCEPT !.phase = "ready", !.hbDl = cs.now + HB_TIMEOUT, !.hbPrev = -1, !.beatDl = cs.now, !.beaten = FALSE,
                                        !.pollDl = cs.now + 1000000000, !.initRet = "true", !.steady = cs.up]
       [] k = "hbstop"    -> [cs EXCEPT !.phase = "idle"]
       [] k = "cb"        -> Callback(cs, ev)
       \* (un)subscribing from inside a callback happens in the middle of a round of notifications:
       \* the round is not closed by it; the other subscribers are still owed their call
       [] k = "subapi"    -> [(IF ev.incb THEN cs ELSE Settle(cs)) EXCEPT !.subs = IF \E i \in 1..Len(@) : @[i].who = ev.who /\ @[i].target = ev.target /\ @[i].kind = ev.kind
                                                           THEN @ ELSE Append(@, [who |-> ev.who, target |-> ev.target, kind |-> ev.kind])]
       [] k = "unsubapi"  -> LET c0   == IF ev.incb THEN cs ELSE Settle(cs)
                                 left == SelectSeq(c0.subs, LAMBDA x : ~(x.who = ev.who /\ x.target = ev.target /\ x.kind = ev.kind))
                                 \* a round that could not be closed yet (a stalled link): a callback that has
                                 \* unsubscribed in the meantime is no longer owed its call
                                 gone == ~\E i \in 1..Len(left) : left[i].who = ev.who
                             IN [c0 EXCEPT !.subs = left, !.must = IF gone THEN @ \ {ev.who} ELSE @]
       [] k = "snapshot"  -> Snapshot(Settle(cs), ev)
       [] k = "quiesce"   -> Quiesce(cs)
       [] OTHER           -> cs
=============================================================================
