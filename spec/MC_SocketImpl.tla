--------------------------- MODULE MC_SocketImpl ---------------------------
(* Model-checking wrapper: constants that a .cfg cannot express. *)
EXTENDS SocketImpl
PolIdem   == {<<2, 60>>}                         \* RETRY_IDEMPOTENT: 2 retries, 30 s
PolMixed  == {<<2, 60>>, <<0, 2>>}               \* + RETRY_CONNECTED: 0 retries, 1 s
PolAll    == {<<2, 60>>, <<0, 60>>, <<0, 2>>}    \* + RETRY_NON_IDEMPOTENT
KindsOk   == {"ok"}
KindsBad  == {"ok", "bad"}
KindsAll  == {"ok", "bad", "unreg"}
=============================================================================
