------------------------------- MODULE Crc16 -------------------------------
(***************************************************************************)
(* CRC-16/MODBUS as the vendor documents name it ("CRC16 MODBUS", AT4 v1.6 *)
(* 3g, AT5 v1.2 3g): reflected polynomial 0xA001, initial value 0xFFFF, no *)
(* final xor; the two check bytes are the register HIGH byte first.        *)
(* Written bit-serially from the definition; the byte table T8 is DERIVED  *)
(* from it and TableLemma (checked by TLC over all 65536 registers) states *)
(* that the table step equals eight bit steps.                             *)
(***************************************************************************)
EXTENDS Naturals, Sequences, Bitwise, SequencesExt

RECURSIVE Bits(_, _)
Bits(r, n) == IF n = 0 THEN r
              ELSE Bits(IF r % 2 = 1 THEN (r \div 2) ^^ 40961 ELSE r \div 2, n - 1)

T8 == [i \in 0..255 |-> Bits(i, 8)]

StepBits(r, b)  == Bits(r ^^ b, 8)                       \* definition: xor the byte in, shift 8 times
StepTable(r, b) == (r \div 256) ^^ T8[(r ^^ b) % 256]    \* derived table form

Crc(s)      == FoldLeft(StepTable, 65535, s)
CrcSlow(s)  == FoldLeft(StepBits, 65535, s)
CrcBytes(s) == LET c == Crc(s) IN << c \div 256, c % 256 >>

\* The table step is the bit-serial step.  For b < 256, (r ^^ b) \div 256 = r \div 256, hence
\* StepBits(r, b) = Bits(x, 8) and StepTable(r, b) = (x \div 256) ^^ T8[x % 256] with x = r ^^ b:
\* the lemma over all 65536 values of x covers every (register, byte) pair.
TableLemmaAt(x) == Bits(x, 8) = (x \div 256) ^^ T8[x % 256]
\* direct form on one (register, byte) pair, used as a spot check of the argument above
TableLemmaPair(r, b) == StepBits(r, b) = StepTable(r, b)

\* anchors from the vendor documents (example frames that carry check bytes)
Anchors ==
  /\ CrcBytes(<<128,176,1,44,0,4,129,255,63,0>>) = <<26,150>>      \* AT4 v1.6 4c example (0x80 b0 01 2c .. 1a 96)
  /\ CrcBytes(<<49,50,51,52,53,54,55,56,57>>) = <<75,55>>          \* "123456789" -> 0x4B37 (catalogue check value)
=============================================================================
