----------------------------- MODULE Check_Pair -----------------------------
(***************************************************************************)
(* C19: the same abstract installation and history played on an AirTouch 4 *)
(* and an AirTouch 5 console.  Input (TRACE_FILE): {"traces": [{"id",      *)
(* "cases": [ {"k": "snap", "a": obs4.air_conditioners, "b": obs5...} |    *)
(*            {"k": "cmd", "ra": res4, "rb": res5, "fa": frame4 bytes,     *)
(*             "fb": frame5 bytes} ]}]}.  The unified API must expose equal *)
(* values for the attributes both generations support, accept / reject the *)
(* same requests, and give each accepted request the same protocol meaning *)
(* (ApiModel!Common / CommonZone / AbstractCmd).                           *)
(***************************************************************************)
EXTENDS Naturals, Sequences, TLC, Json, IOUtils, Wire, WireMsg, WireMatch, ApiModel

Traces == JsonDeserialize(IOEnv.TRACE_FILE).traces
N == Len(Traces)

Meaning(proto, fr) ==
  LET u == Unframe(proto, fr)
  IN IF ~u.ok THEN [bad |-> u.why] ELSE AbstractCmd(proto, ReadMsg(proto, u.type, u.payload))

\* An AT4 timer control addresses its ACs by record position (four records), an AT5 one by number:
\* compared on the AC the AT5 frame addresses.
MeaningSame(a, b) ==
  IF "bad" \in DOMAIN a \/ "bad" \in DOMAIN b THEN FALSE
  ELSE IF ~Eq(a.timers, "keep") /\ ~Eq(b.timers, "keep") /\ Eq(b.target[1], "ac")
  THEN Eq(AbstractTimerFor(a, b.target[2]), AbstractTimerFor(b, b.target[2]))
  ELSE Eq(a, b)

SnapSame(a, b) ==
  /\ Len(a) = Len(b)
  /\ \A i \in 1..Len(a) :
        /\ Eq(Common("at4", a[i]), Common("at5", b[i]))
        /\ Len(a[i].zones) = Len(b[i].zones)
        /\ \A j \in 1..Len(a[i].zones) : Eq(CommonZone("at4", a[i].zones[j]), CommonZone("at5", b[i].zones[j]))

Judge(c) ==
  IF c.k = "snap" THEN (IF SnapSame(c.a, c.b) THEN "ok" ELSE "AttributesDiffer")
  ELSE IF c.ra # c.rb THEN "AcceptanceDiffers"
  ELSE IF c.ra # "ok" THEN "ok"
  ELSE IF Len(c.fa) = 0 \/ Len(c.fb) = 0 THEN "FrameMissing"
  ELSE IF MeaningSame(Meaning("at4", c.fa), Meaning("at5", c.fb)) THEN "ok" ELSE "MeaningDiffers"

VARIABLES tid, l, viol
Init == tid = 1 /\ l = 1 /\ viol = <<>>
Next ==
  /\ tid <= N
  /\ IF l <= Len(Traces[tid].cases)
     THEN LET v == Judge(Traces[tid].cases[l])
          IN /\ viol' = IF v = "ok" \/ Len(viol) >= 8 THEN viol ELSE Append(viol, <<v, l>>)
             /\ l' = l + 1 /\ tid' = tid
     ELSE /\ PrintT(<<"VERDICT", Traces[tid].id, viol>>)
          /\ tid' = tid + 1 /\ l' = 1 /\ viol' = <<>>
=============================================================================
