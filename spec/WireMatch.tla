------------------------------ MODULE WireMatch ------------------------------
(***************************************************************************)
(* How an observed decode result is judged against the reference reading   *)
(* (C05 / C17 / C03): equal to the reference, or to its "sensor-gated"     *)
(* variant (the library reports no temperature / set-point for a zone      *)
(* whose record says "no sensor" - an absent value, never a different      *)
(* one); where the reference has "NA" (undocumented code or documented     *)
(* not-available value) the observed field must be absent; an Undecodable  *)
(* reference accepts anything.                                             *)
(***************************************************************************)
EXTENDS Naturals, Sequences, TLC, TLCExt

Eq(a, b)  == TLCFP(a) = TLCFP(b)      \* never raises a type error, independent of construction order
IsNA(x)   == Eq(x, "NA")
Absent(x) == Eq(x, <<>>)

IsWrapper(k) == k \in {"ExtendedMessage", "ControlStatusMessage"}
ListField(k) == CASE k = "AcStatusMessage" -> "ac_status"
                  [] k = "GroupStatusMessage" -> "groups"
                  [] k = "ZoneStatusMessage" -> "zones"
                  [] k = "AcAbilityMessage" -> "ac_abilities"
                  [] k \in {"AcTimerStatusMessage", "AcTimerControlMessage"} -> "ac_timer_status"
                  [] k = "ZoneControlMessage" -> "zone_control"
                  [] k = "AcControlMessage5" -> "ac_control"
                  [] OTHER -> ""

\* the AT5 AcControlMessage has a list field, the AT4 one of the same name has none
LF(m) == IF m.k = "AcControlMessage" THEN (IF "ac_control" \in DOMAIN m THEN "ac_control" ELSE "")
         ELSE ListField(m.k)

GateRec(k, g) ==
  IF k = "GroupStatusMessage" /\ ~g.has_sensor THEN [g EXCEPT !.temperature = <<>>, !.set_point = <<>>]
  ELSE IF k = "ZoneStatusMessage" /\ ~g.has_sensor THEN [g EXCEPT !.temperature = <<>>]
  ELSE g

Gate1(m) == IF m.k \in {"GroupStatusMessage", "ZoneStatusMessage"}
            THEN LET f == ListField(m.k) IN [m EXCEPT ![f] = [i \in 1..Len(m[f]) |-> GateRec(m.k, m[f][i])]]
            ELSE m
Gate(m) == IF IsWrapper(m.k) THEN [m EXCEPT !.sub_message = Gate1(m.sub_message)] ELSE Gate1(m)

LeafOK(r, o) == IF IsNA(r) THEN Absent(o) ELSE Eq(r, o)
RecOK(r, o)  == \A f \in DOMAIN r : f \in DOMAIN o /\ LeafOK(r[f], o[f])

Msg1OK(r, o) ==
  /\ Eq(r.k, o.k)
  /\ LET f == LF(r)
     IN IF f = "" THEN RecOK(r, o)
        ELSE /\ f \in DOMAIN o /\ Len(r[f]) = Len(o[f])
             /\ \A i \in 1..Len(r[f]) : RecOK(r[f][i], o[f][i])

MsgNAOK(r, o) == IF IsWrapper(r.k) THEN Eq(r.k, o.k) /\ Msg1OK(r.sub_message, o.sub_message)
                 ELSE Msg1OK(r, o)

IsUndecodable(r) == r.k = "Undecodable"

\* ref: reference reading, soft: SoftMsg of the same payload, obs: projection of what was decoded
MatchMsg(ref, soft, obs) ==
  IF IsUndecodable(ref) THEN TRUE
  ELSE IF ~soft THEN Eq(ref, obs) \/ Eq(Gate(ref), obs)
  ELSE MsgNAOK(ref, obs) \/ MsgNAOK(Gate(ref), obs)
=============================================================================
