---------------------------- MODULE DiscoveryImpl ----------------------------
(***************************************************************************)
(* Implementation-shaped model (L2) of discovery: pyairtouch.discover() -> *)
(* factory._search (two AirTouchDiscoverer.search() tasks gathered with    *)
(* as_completed) -> comms/discovery.py (UDP socket, request loop with      *)
(* 0.5 s sleeps, one callback task per accepted datagram adding to the     *)
(* response set), on an asyncio loop:                                      *)
(*   ready   FIFO of handles  <<"main">>, <<"s", g>>, <<"cb", g, k>>       *)
(*   batch   handles belonging to the current loop iteration               *)
(*   tasks   main (M0 Mwait Mret done), search g (S0 S1 Ssleep done)       *)
(* The environment acts between loop iterations: the discover() call, a    *)
(* datagram of kind k on the socket of generation g, the clock (125 ms     *)
(* units, never past a due timer).  Every action emits the external events *)
(* it causes; `mon` is the DiscoveryContract monitor fed with them and     *)
(* ContractHolds the refinement claim.                                     *)
(*                                                                         *)
(* F_SET = FALSE keys the duplicate filter on the AirTouch id only (the    *)
(* behaviour of a seeded change), to show the model exercises the clause.  *)
(***************************************************************************)
EXTENDS Naturals, Integers, Sequences, FiniteSets, FiniteSetsExt, TLC, TLCExt

CONSTANTS MaxEnv, H, F_SET, Record

C == INSTANCE DiscoveryContract

VARIABLES D, mon, script
vars == <<D, mon, script>>

U == 125                \* ms per time unit
IV == 4                 \* _DISCOVERY_REQUEST_INTERVAL in units
MAXR == 3
Gens == {4, 5}
Uof(g) == IF g = 4 THEN 0 ELSE 1
LPort(g) == IF g = 4 THEN 49004 ELSE 49005
Bcast == <<50,53,53,46,50,53,53,46,50,53,53,46,50,53,53>>

\* datagram kinds: 1,2 two consoles; 3 the first console again (duplicate); 4 a second console of
\* the same system (same id, other address and serial); 5 echo of the request; 6 too few parts;
\* 7 (AT5) a name with commas
Dg(g, k) ==
  LET tag == IF g = 4 THEN C!Tag4 ELSE C!Tag5
      host1 == <<49,48,46,48,46,48,46,50>>   \* 10.0.0.2
      host2 == <<49,48,46,48,46,48,46,51>>   \* 10.0.0.3
      ser1 == <<65,49>>  ser2 == <<66,50>>
      id1 == <<49,49>>   id2 == <<50,50>>
      nm(x) == IF g = 4 THEN <<>> ELSE <<44>> \o x
      mk(h, s, i, n) == h \o <<44>> \o s \o <<44>> \o tag \o <<44>> \o i \o nm(n)
  IN CASE k = 1 -> mk(host1, ser1, id1, <<72,111,109,101>>)
       [] k = 2 -> mk(host2, ser2, id2, <<72,117,116>>)
       [] k = 3 -> mk(host1, ser1, id1, <<72,111,109,101>>)
       [] k = 4 -> mk(host2, ser2, id1, <<72,111,109,101>>)
       [] k = 5 -> IF g = 4 THEN C!Req4 ELSE C!Req5
       [] k = 6 -> host1 \o <<44>> \o ser1 \o <<44>> \o tag
       [] k = 7 -> mk(host1, ser1, id1, <<97,44,98,44,44,99>>)
Kinds == 1..7
\* what the decoders of the library do with these kinds: accepted iff the vendor format
Accepted(g, k) == k \in {1, 2, 3, 4, 7}       \* (for generation 4, kind 7 reads like kind 1)
Entry(g, k) == C!Parse(g, Dg(g, k))[1]

D0 == [now |-> 0, called |-> FALSE, main |-> "idle", mhops |-> 0,
       s |-> [g \in Gens |-> [pc |-> "new", hops |-> 0, count |-> 0, resp |-> {}, wake |-> 0, open |-> FALSE, closed |-> FALSE]],
       results |-> <<>>, ndone |-> 0,
       ready |-> <<>>, batch |-> 0, nenv |-> 0, iters |-> 0]

Init == D = D0 /\ mon = C!D0 /\ script = <<>>

Ev(d, e) == [e EXCEPT !.t = d.now * U]
RECURSIVE Fold(_, _)
Fold(m, evs) == IF evs = <<>> THEN m ELSE Fold(C!DStep(m, Head(evs)), Tail(evs))

SetToSeq(X) == LET RECURSIVE F(_)
                   F(Y) == IF Y = {} THEN <<>> ELSE LET x == CHOOSE x \in Y : \A y \in Y : TLCFP(x) <= TLCFP(y) IN <<x>> \o F(Y \ {x})
               IN F(X)

Boundary(d) == d.batch = 0
Due(d) == {g \in Gens : d.s[g].pc = "Ssleep" /\ d.s[g].wake <= d.now}
Sleeping(d) == {g \in Gens : d.s[g].pc = "Ssleep"}
Quiet(d) == Boundary(d) /\ d.ready = <<>> /\ Due(d) = {}

StartIter ==
  /\ Boundary(D) /\ (D.ready # <<>> \/ Due(D) # {})
  /\ LET due == SetToSeq(Due(D))
         r   == D.ready \o [i \in 1..Len(due) |-> <<"s", due[i]>>]
     IN D' = [D EXCEPT !.ready = r, !.batch = Len(r), !.iters = IF Record THEN @ + 1 ELSE @,
                       !.s = [g \in Gens |-> IF g \in Due(D) THEN [D.s[g] EXCEPT !.pc = "Stimer"] ELSE D.s[g]]]
  /\ UNCHANGED <<mon, script>>

\* duplicate filter of search(): a set of (frozen) responses
AddResp(resp, g, k) ==
  IF F_SET THEN IF \E j \in resp : Dg(g, j) = Dg(g, k) THEN resp ELSE resp \cup {k}
  ELSE IF \E j \in resp : Entry(g, j).airtouch_id = Entry(g, k).airtouch_id
       THEN (resp \ {j \in resp : Entry(g, j).airtouch_id = Entry(g, k).airtouch_id}) \cup {k}
       ELSE resp \cup {k}

\* one handle of the current iteration
Run ==
  /\ D.batch > 0
  /\ LET h  == Head(D.ready)
         d1 == [D EXCEPT !.ready = Tail(@), !.batch = @ - 1]
     IN CASE h[1] = "main" ->
               IF d1.mhops > 0
               THEN D' = [d1 EXCEPT !.mhops = @ - 1, !.ready = Append(@, h)] /\ UNCHANGED mon
               ELSE IF d1.main = "M0"        \* _search(): both searches become tasks (as_completed)
               THEN D' = [d1 EXCEPT !.main = "Mwait", !.ready = @ \o <<<<"s", 4>>, <<"s", 5>>>>,
                                    !.s = [g \in Gens |-> [d1.s[g] EXCEPT !.pc = "S0"]]]
                    /\ UNCHANGED mon
               ELSE IF d1.main = "Mret" /\ d1.ndone = 2
               THEN /\ D' = [d1 EXCEPT !.main = "done"]
                    /\ mon' = Fold(mon, <<Ev(d1, [e |-> "retdiscover", t |-> 0, res |-> "ok", val |-> d1.results])>>)
               ELSE D' = d1 /\ UNCHANGED mon
          [] h[1] = "s" ->
               LET g == h[2]  me == d1.s[g]
               IN IF me.hops > 0
                  THEN D' = [d1 EXCEPT !.s[g].hops = @ - 1, !.ready = Append(@, h)] /\ UNCHANGED mon
                  ELSE IF me.pc = "Stimer"   \* the timer handle of sleep(): sets the future, the task resumes a turn later
                  THEN D' = [d1 EXCEPT !.s[g].pc = "S1", !.ready = Append(@, h)] /\ UNCHANGED mon
                  ELSE IF me.pc = "S0"       \* _open_socket: create_datagram_endpoint suspends 1..H turns
                  THEN \E n \in 1..H :
                         /\ D' = [d1 EXCEPT !.s[g].pc = "S1", !.s[g].open = TRUE, !.s[g].hops = n - 1, !.ready = Append(@, h)]
                         /\ mon' = Fold(mon, <<Ev(d1, [e |-> "udp_open", t |-> 0, u |-> Uof(g), lport |-> LPort(g)])>>)
                  ELSE IF me.pc = "S1"       \* while not responses and count < 3: sendto; sleep(0.5)
                  THEN IF me.resp = {} /\ me.count < MAXR
                       THEN /\ D' = [d1 EXCEPT !.s[g].pc = "Ssleep", !.s[g].count = @ + 1, !.s[g].wake = d1.now + IV]
                            /\ mon' = Fold(mon, <<Ev(d1, [e |-> "udp_send", t |-> 0, u |-> Uof(g), host |-> Bcast,
                                                         port |-> LPort(g), b |-> IF g = 4 THEN C!Req4 ELSE C!Req5])>>)
                       ELSE \* transport.close(); return list(responses): the gatherer wakes 1..H turns later
                            \E n \in 1..H :
                              /\ D' = [d1 EXCEPT !.s[g].pc = "done", !.s[g].closed = TRUE, !.ndone = @ + 1,
                                                 !.results = @ \o [i \in 1..Cardinality(me.resp) |-> Entry(g, SetToSeq(me.resp)[i])],
                                                 !.main = IF d1.ndone = 1 THEN "Mret" ELSE @,
                                                 !.mhops = IF d1.ndone = 1 THEN n - 1 ELSE @,
                                                 !.ready = IF d1.ndone = 1 THEN Append(@, <<"main">>) ELSE @]
                              /\ mon' = Fold(mon, <<Ev(d1, [e |-> "udp_close", t |-> 0, u |-> Uof(g)])>>)
                  ELSE D' = d1 /\ UNCHANGED mon
          [] h[1] = "cb" ->   \* on_discovery_response
               /\ D' = [d1 EXCEPT !.s[h[2]].resp = AddResp(@, h[2], h[3])]
               /\ UNCHANGED mon
  /\ UNCHANGED script

-----------------------------------------------------------------------------
Log(op) == script' = IF Record
                     THEN (IF D.iters > 0 THEN Append(script, [op |-> "step", k |-> D.iters]) ELSE script) \o <<op>>
                     ELSE script

EnvStep(d1, out, op) ==
  /\ Boundary(D) /\ D.nenv < MaxEnv
  /\ D' = [d1 EXCEPT !.nenv = @ + 1, !.iters = 0]
  /\ mon' = Fold(mon, out)
  /\ Log(op)

Call ==
  /\ ~D.called
  /\ EnvStep([D EXCEPT !.called = TRUE, !.main = "M0", !.ready = Append(@, <<"main">>)],
             <<Ev(D, [e |-> "calldiscover", t |-> 0, host |-> <<>>])>>, [op |-> "call"])

\* a datagram is handed to datagram_received of the open socket; an accepted one becomes a callback task
Datagram(g, k) ==
  /\ D.s[g].open /\ ~D.s[g].closed
  /\ EnvStep([D EXCEPT !.ready = IF Accepted(g, k) THEN Append(@, <<"cb", g, k>>) ELSE @],
             <<Ev(D, [e |-> "datagram", t |-> 0, u |-> Uof(g), b |-> Dg(g, k)])>>,
             [op |-> "datagram", lport |-> LPort(g), b |-> Dg(g, k)])

MinWake(d) == Min({d.s[g].wake : g \in Sleeping(d)})
Tick(dt) ==
  /\ Quiet(D) /\ Sleeping(D) # {} /\ D.now + dt <= MinWake(D)
  /\ EnvStep([D EXCEPT !.now = @ + dt], <<>>, [op |-> "advance", by |-> dt * U])

\* end of the run: everything returned
End ==
  /\ Quiet(D) /\ D.main = "done" /\ D.iters # 99
  /\ D' = [D EXCEPT !.iters = 99, !.nenv = MaxEnv + 1]
  /\ mon' = Fold(mon, <<Ev(D, [e |-> "end", t |-> 0])>>)
  /\ Log([op |-> "end"])

Env == Call \/ (\E g \in Gens, k \in Kinds : Datagram(g, k)) \/ (\E dt \in 1..IV : Tick(dt)) \/ End

Next == StartIter \/ Run \/ Env
Spec == Init /\ [][Next]_vars

-----------------------------------------------------------------------------
ContractHolds == mon.viol = <<>>

\* discover() always returns: nothing can keep the run from reaching its end (checked as: no state
\* in which the call is pending, the loop is quiet and nobody sleeps)
AlwaysReturns == (Quiet(D) /\ D.called /\ D.main # "done") => Sleeping(D) # {}

\* at most three requests per search, both sockets closed at return
Bounded == \A g \in Gens : D.s[g].count <= MAXR
ClosedAtReturn == D.main = "done" => \A g \in Gens : D.s[g].closed

EmitScript == (Record /\ D.iters = 99) => PrintT(<<"SCRIPT", script>>)
=============================================================================
