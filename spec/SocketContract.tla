--------------------------- MODULE SocketContract ---------------------------
(***************************************************************************)
(* L1 contract of the AirTouch socket, over EXTERNAL events only (public   *)
(* call/return, connection open/close, frames offered to / fed from the    *)
(* simulated wire, subscriber callbacks, virtual time).  It is a monitor:  *)
(* Step(s, ev) consumes one event and appends the name of every contract   *)
(* clause the event breaks to s.viol.  The same operator judges            *)
(*   - traces recorded from the real code (Trace_Socket, through the byte  *)
(*     front-end SocketFront), and                                         *)
(*   - every behaviour of the implementation-shaped model SocketImpl.      *)
(* Clause names are mapped to the listed properties in checks/clauses.py.  *)
(***************************************************************************)
EXTENDS Naturals, Integers, Sequences, FiniteSets, FiniteSetsExt, TLC, TLCExt

CONSTANT QMAX                    \* C16: at most ten unexpired messages held (10; scaled in SocketImpl)
CLIENT == 176                    \* 0xB0
CONSOLE == 128                   \* 0x80
CONSOLE_EXT == 144               \* 0x90
EXT_TYPE == 31                   \* 0x1F

\* Equality that never raises a TLC type error and does not depend on how a record was built:
\* fingerprints are computed on the normalised value (ToString is not: a record built by an
\* operator prints its fields in construction order, a JSON-deserialised one in sorted order).
Same(a, b) == TLCFP(a) = TLCFP(b)

S0 == [now |-> 0, n |-> 0, want |-> FALSE, cl |-> 0,
       acc |-> <<>>,             \* submitted messages in call order
       conn |-> <<>>,            \* per attempt c (index c+1): pending/up/half/cclosed/lost/refused/cancelled
       rx |-> <<>>,              \* per attempt: [pend |-> intact frames fed, not yet delivered; defect |-> BOOLEAN]
       ftx |-> <<>>,             \* per attempt: a frame has been offered on it
       late |-> <<>>,            \* frames fed on a connection that ended before they were delivered
       blocked |-> 0,            \* blocking subscribers installed and not released
       stalled |-> {},           \* connections whose send buffer is full (the console does not read)
       ovl |-> FALSE,
       idleSince |-> -1,         \* since when no connection exists or is being attempted (-1: one is)
       openSince |-> -1,         \* since when the client has been open without interruption
       bp |-> FALSE,             \* an unencodable message may sit in the queue
       healFrom |-> 0, strict |-> FALSE, viol |-> <<>>]

\* s.n is the position of the event being judged (set by the trace specs; constant 0 in SocketImpl)
V(s, clause) == [s EXCEPT !.viol = IF Len(@) < 8 THEN Append(@, <<clause, s.n>>) ELSE @]

Idx(s) == 1..Len(s.acc)
Op(s) == IF s.cl > 0 THEN "closing" ELSE IF s.want THEN "yes" ELSE "no"
Counted(e)   == e.st \in {"ok", "calling"}
Alive(s, e)  == Counted(e) /\ e.enc = "ok" /\ ~e.stale /\ s.now < e.expiry
NeedsTx(e)   == e.att = 0 \/ (e.failed /\ e.att < 1 + e.retries)
HeldIdx(s)   == {i \in Idx(s) : Alive(s, s.acc[i]) /\ NeedsTx(s.acc[i])}
Conns(s)     == 1..Len(s.conn)
OpenConns(s) == {c \in Conns(s) : s.conn[c] \in {"up", "half"}}
UpConns(s)   == {c \in Conns(s) : s.conn[c] = "up"}

\* Messages certainly held (accepted, alive, still to be transmitted) and calls whose outcome is
\* still open.  A call started as a task takes effect at some moment between its `call` and its
\* `ret` event; each pending call therefore records the range [lo, hi] of the number of held
\* messages, and whether the client was open / not open, over that interval (Track, applied after
\* every event).  C16 fixes the outcome only when the whole interval agrees.
\* (a call still in progress whose frame has already been seen on the wire has certainly been accepted)
Certain(e)  == e.st = "ok" \/ (e.st = "calling" /\ e.att > 0)
DefHeld(s)  == Cardinality({i \in HeldIdx(s) : Certain(s.acc[i])})
Calling(s)  == {i \in Idx(s) : s.acc[i].st = "calling"}
\* messages accepted before an earlier close(): the statements do not say whether they are kept
\* (they may still occupy the buffer, and may or may not be transmitted after a re-open)
\* (likewise a call the application itself cancelled: its message may or may not have been taken)
StaleHeld(s) == Cardinality({i \in Idx(s) : LET e == s.acc[i] IN
                               ((e.st = "ok" /\ e.stale) \/ e.st = "can") /\ e.enc = "ok" /\ s.now < e.expiry /\ NeedsTx(e)})

Track(s) ==
  IF Calling(s) = {} THEN s
  ELSE LET d  == DefHeld(s)
           nc == Cardinality({i \in Calling(s) : ~Certain(s.acc[i])}) + 1
           sh == StaleHeld(s)
       IN [s EXCEPT !.acc = [i \in Idx(s) |->
             IF s.acc[i].st # "calling" THEN s.acc[i]
             ELSE [s.acc[i] EXCEPT !.lo = IF s.bp THEN 0 ELSE IF d < @ THEN d ELSE @,
                                   !.hi = IF s.bp THEN 99 ELSE IF d + sh + nc - 1 > @ THEN d + sh + nc - 1 ELSE @,
                                   \* (ovl: open_socket() and close() calls overlapped - which of them took effect
                                   \* last is not decided by the order in which they were CALLED)
                                   !.oy = @ \/ s.ovl \/ Op(s) \in {"yes", "closing", "reopening"},
                                   !.on = @ \/ s.ovl \/ Op(s) \in {"no", "closing", "reopening"}]]]

-----------------------------------------------------------------------------
(* public calls *)

\* Whether the client is open: decided by the LAST open_socket()/close() call, but while any
\* close() has been called and has not returned the statements fix nothing ("closing").
\* (ovl: opened while a close() was still in progress - the statements speak of a LATER open only)
CallOpen(s)  == [s EXCEPT !.want = TRUE, !.ovl = s.cl > 0]
CallClose(s) == [s EXCEPT !.want = FALSE, !.cl = @ + 1, !.ovl = FALSE]
RetClose(s)  == [s EXCEPT !.cl = IF @ > 0 THEN @ - 1 ELSE 0,
                          !.acc = [i \in Idx(s) |-> [s.acc[i] EXCEPT !.stale = TRUE]]]

CallSend(s, ev) ==
  LET ent == [id |-> ev.id, desc |-> ev.desc, retries |-> ev.retries, expiry |-> s.now + ev.life,
              st |-> "calling", lo |-> 99, hi |-> 0, oy |-> FALSE, on |-> FALSE,
              att |-> 0, failed |-> FALSE, tx |-> 0, enc |-> ev.enc, stale |-> FALSE,
              sc |-> 0,          \* the stalled connection whose send buffer took the frame, if any
              mf |-> FALSE]      \* that connection ended while stalled: the frame may not have left
  IN [s EXCEPT !.acc = Append(@, ent), !.bp = @ \/ ev.enc # "ok"]

\* C16: not open => NotOpenError; ten unexpired messages held => QueueOverflowError, nothing
\* held for the rejected call; otherwise accepted.
RetSend(s, ev) ==
  LET is == {i \in Idx(s) : s.acc[i].id = ev.id /\ s.acc[i].st = "calling"}
  IN IF is = {} THEN s
     ELSE LET i == Min(is)
              e == s.acc[i]
          IN CASE ev.res = "ok" ->
                    LET s1 == IF ~e.oy THEN V(s, "NotOpenNotRaised")
                              ELSE IF e.lo >= QMAX THEN V(s, "OverflowNotRaised") ELSE s
                    IN [s1 EXCEPT !.acc[i].st = "ok"]
               [] ev.res = "QueueOverflowError" ->
                    LET s1 == IF e.hi < QMAX \/ ~e.oy THEN V(s, "SpuriousOverflow") ELSE s
                        s2 == IF e.att > 0 THEN V(s1, "RejectedButSent") ELSE s1
                    IN [s2 EXCEPT !.acc[i].st = "rej"]
               [] ev.res = "NotOpenError" ->
                    LET s1 == IF ~e.on THEN V(s, "SpuriousNotOpen") ELSE s
                        s2 == IF e.att > 0 THEN V(s1, "RejectedButSent") ELSE s1
                    IN [s2 EXCEPT !.acc[i].st = "rej"]
               [] OTHER ->     \* the call raised something else: nothing was accepted
                    LET s1 == IF e.enc = "ok" THEN V(s, "SendRaised") ELSE s
                    IN [s1 EXCEPT !.acc[i].st = "rej"]

\* The application cancels its own send() (asyncio.timeout, wait_for ...): from here on nothing is owed
\* for that message - it may have been taken or not, it may still be transmitted (once) or not.
CancelSend(s, ev) ==
  [s EXCEPT !.acc = [i \in Idx(s) |-> IF s.acc[i].id = ev.id /\ s.acc[i].st = "calling"
                                        THEN [s.acc[i] EXCEPT !.st = "can"] ELSE s.acc[i]]]

-----------------------------------------------------------------------------
(* connections *)

Attempt(s, ev) ==
  LET s1 == IF Op(s) = "no" THEN V(s, "AttemptAfterClose") ELSE s
  IN [s1 EXCEPT !.conn = Append(@, "pending"),
                !.rx = Append(@, [pend |-> <<>>, defect |-> FALSE]),
                !.ftx = Append(@, FALSE)]

ConnOk(s, ev) ==
  LET c  == ev.c + 1
      s1 == [s EXCEPT !.conn[c] = "up"]
  IN IF Cardinality(OpenConns(s1)) > 1 THEN V(s1, "AtMostOne") ELSE s1

EndConn(s, c, how) ==       \* the connection is gone: undelivered frames may still surface later
  [s EXCEPT !.conn[c] = how, !.late = @ \o s.rx[c].pend, !.rx[c].pend = <<>>]

-----------------------------------------------------------------------------
(* transmission: one complete frame was offered to connection ev.c *)

TxFrame(s, ev) ==
  LET c     == ev.c + 1
      cand  == {i \in Idx(s) : s.acc[i].st # "rej" /\ \E a \in 1..Len(ev.alts) : Same(s.acc[i].desc, ev.alts[a])}
      elig  == {i \in cand : s.acc[i].att = 0 \/ s.acc[i].failed \/ s.acc[i].mf}
      \* among submissions that read the same, the frame is attributed to one that may still be sent
      \* (a pending re-send first, then the oldest unexpired one), else to the oldest
      live  == {i \in elig : s.now < s.acc[i].expiry}
      retry == {i \in live : (s.acc[i].failed \/ s.acc[i].mf) /\ s.acc[i].att < 1 + s.acc[i].retries}
      fresh == {i \in live : s.acc[i].att = 0}
      i     == IF retry # {} THEN Min(retry) ELSE IF fresh # {} THEN Min(fresh)
               ELSE IF live # {} THEN Min(live) ELSE IF elig # {} THEN Min(elig) ELSE 0
      s1    == IF Op(s) = "no" /\ ev.nw > 0 THEN V(s, "WriteAfterClose") ELSE s
      s2    == IF ev.ok /\ (ev.from # CLIENT \/ ev.to # (IF ev.type = EXT_TYPE THEN CONSOLE_EXT ELSE CONSOLE))
               THEN V(s1, "Addressing") ELSE s1
  IN IF ~ev.ok THEN V(s2, "GarbledFrame")
     ELSE IF cand = {} THEN V(s2, "NoFabrication")
     ELSE IF elig = {} THEN V(s2, "OnceUnlessFailed")
     ELSE
       LET e  == s.acc[i]
           pendRetry == {j \in Idx(s) : Alive(s, s.acc[j]) /\ s.acc[j].failed
                                         /\ s.acc[j].att < 1 + s.acc[j].retries}
           s3 == IF e.att >= 1 + e.retries THEN V(s2, "AttemptBound") ELSE s2
           s4 == IF s.now >= e.expiry THEN V(s3, "NotAfterExpiry") ELSE s3
           s5 == IF e.att = 0 /\ \E j \in 1..(i - 1) : Alive(s, s.acc[j]) /\ s.acc[j].att = 0
                 THEN V(s4, "FirstTxInOrder") ELSE s4
           s6 == IF ~s.ftx[c] /\ pendRetry # {} /\ i \notin pendRetry /\ ~e.mf
                 THEN V(s5, "FailedFirstOnNext") ELSE s5
       IN [s6 EXCEPT !.acc[i].att = @ + 1, !.acc[i].failed = ev.failed, !.acc[i].mf = FALSE,
                     !.acc[i].sc = IF c \in s.stalled /\ ~ev.failed THEN c ELSE 0,
                     !.acc[i].tx = @ + (IF ev.failed THEN 0 ELSE 1), !.ftx[c] = TRUE]

-----------------------------------------------------------------------------
(* reception *)

RxFrame(s, ev) ==
  LET c == ev.c + 1
  IN IF s.conn[c] # "up" THEN s
     \* an intact frame that follows a damaged one on the same connection: the statements require the
     \* connection to be re-established, not that the frame be withheld - it may or may not surface
     ELSE IF s.rx[c].defect THEN [s EXCEPT !.late = Append(@, [alts |-> ev.alts, soft |-> ev.soft])]
     ELSE [s EXCEPT !.rx[c].pend = Append(@, [alts |-> ev.alts, soft |-> ev.soft])]

RxDefect(s, ev) ==
  LET c == ev.c + 1
  IN IF s.conn[c] # "up" THEN s ELSE [s EXCEPT !.rx[c].defect = TRUE]

DropAt(q, k) == SubSeq(q, 1, k - 1) \o SubSeq(q, k + 1, Len(q))

Deliver(s, ev) ==
  LET cs == {c \in OpenConns(s) : s.rx[c].pend # <<>>}
  IN IF cs # {}
     THEN LET c == Min(cs)
              h == Head(s.rx[c].pend)
              s1 == [s EXCEPT !.rx[c].pend = Tail(@)]
          IN IF h.soft \/ (\E a \in 1..Len(h.alts) : Same(h.alts[a], ev.rd)) THEN s1 ELSE V(s1, "Misread")
     ELSE LET ks == {k \in 1..Len(s.late) : s.late[k].soft \/ (\E a \in 1..Len(s.late[k].alts) : Same(s.late[k].alts[a], ev.rd))}
          IN IF ks # {} THEN [s EXCEPT !.late = DropAt(@, Min(ks))]
             ELSE IF \E c \in Conns(s) : s.rx[c].defect THEN V(s, "DeliveredAfterDefect")
             ELSE V(s, "DeliverWithoutFrame")

-----------------------------------------------------------------------------
(* checkpoints *)

\* bookkeeping for GaveUpConnecting, after every event
GIVEUP_MS == 2500
Live(s) == \E c \in Conns(s) : s.conn[c] \in {"pending", "up", "half"}
Idle(s) ==
  \* (while the environment holds the client - a stalled link whose close cannot complete, a subscriber
  \*  that does not return - it is not the client that sits idle: the clock starts when the hold ends)
  [s EXCEPT !.idleSince = IF Live(s) \/ s.blocked > 0 THEN -1 ELSE IF @ = -1 THEN s.now ELSE @,
            !.openSince = IF Op(s) = "yes" THEN (IF @ = -1 THEN s.now ELSE @) ELSE -1]

Quiesce(s) ==
  LET up == UpConns(s)
      q  == s.blocked = 0
      s1 == IF q /\ Op(s) = "yes" /\ up # {} /\ HeldIdx(s) # {}
            THEN V(s, IF \E i \in HeldIdx(s) : s.acc[i].failed THEN "FailedNotResent"
                      ELSE "PromptAtQuiesce")
            ELSE s
      s2 == IF q /\ \E c \in OpenConns(s) : s.rx[c].pend # <<>> THEN V(s1, "FrameNotDelivered") ELSE s1
      s3 == IF q /\ \E c \in OpenConns(s) : s.rx[c].defect /\ s.rx[c].pend = <<>>
            THEN V(s2, "DefectNotClosed") ELSE s2
      s4a == IF q /\ \E c \in Conns(s) : s.conn[c] = "half" THEN V(s3, "HalfOpenNotClosed") ELSE s3
      \* C07 / C15: an open client is connected, connecting, or in its 2 s back-off - it never sits idle
      s4 == IF q /\ Op(s) = "yes" /\ ~s.ovl /\ s.idleSince >= 0 /\ s.now - s.idleSince >= GIVEUP_MS
               /\ s.openSince >= 0 /\ s.now - s.openSince >= GIVEUP_MS
            THEN V(s4a, "GaveUpConnecting") ELSE s4a
  IN [s4 EXCEPT !.bp = IF up # {} /\ Op(s) = "yes" /\ q THEN FALSE ELSE @]

HealBegin(s) == [s EXCEPT !.healFrom = Len(s.acc)]

HealEnd(s) ==
  LET s1 == IF Op(s) = "yes" /\ ~s.ovl /\ Cardinality(UpConns(s)) # 1 THEN V(s, "HealNotConnected") ELSE s
      s2 == IF ~s.ovl /\ \E i \in Idx(s) : i > s.healFrom /\ s.acc[i].st = "ok" /\ s.acc[i].tx = 0
                                  /\ Alive(s, s.acc[i]) /\ NeedsTx(s.acc[i])
            THEN V(s1, "HealNotTransmitting") ELSE s1
      s3 == IF \E c \in OpenConns(s) : s.rx[c].pend # <<>> THEN V(s2, "HealNotReceiving") ELSE s2
      s4 == IF \E c \in Conns(s) : c \notin UpConns(s) /\ s.conn[c] \in {"up", "half"}
            THEN V(s3, "AbandonedNotClosed") ELSE s3
  IN s4

Residual(s, ev) ==
  IF Op(s) # "no" THEN s
  ELSE LET s1 == IF ev.tasks > 0 \/ ev.timers > 0 THEN V(s, "ResidualTasks") ELSE s
       IN IF OpenConns(s) # {} \/ \E c \in Conns(s) : s.conn[c] = "pending"
          THEN V(s1, "ConnLeftOpen") ELSE s1

Notify(s, ev) == IF ev.connected /\ Op(s) = "no" THEN V(s, "NotifyAfterClose") ELSE s

-----------------------------------------------------------------------------
Step1(s0, ev) ==
  LET s == [s0 EXCEPT !.now = ev.t]
      k == ev.e
  IN CASE k = "callsend"  -> CallSend(s, ev)
       [] k = "retsend"   -> RetSend(s, ev)
       [] k = "cancelsend" -> CancelSend(s, ev)
       [] k = "callopen"  -> CallOpen(s)
       [] k = "callclose" -> CallClose(s)
       [] k = "retclose"  -> RetClose(s)
       [] k = "attempt"   -> Attempt(s, ev)
       [] k = "connok"    -> ConnOk(s, ev)
       [] k = "refused"   -> [s EXCEPT !.conn[ev.c + 1] = "refused"]
       [] k = "cancelled" -> [s EXCEPT !.conn[ev.c + 1] = "cancelled"]
       [] k = "cclose"    -> EndConn(IF s.strict /\ Op(s) = "yes" THEN V(s, "SpuriousReset") ELSE s,
                                     ev.c + 1, "cclosed")
       [] k = "strict"    -> [s EXCEPT !.strict = TRUE]     \* the script injects no fault from here on
       [] k = "lenient"   -> [s EXCEPT !.strict = FALSE]
       [] k = "lost"      -> EndConn(s, ev.c + 1, "lost")
       [] k = "peereof"   -> [s EXCEPT !.conn[ev.c + 1] = IF @ = "up" THEN "half" ELSE @]
       [] k = "txframe"   -> TxFrame(s, ev)
       [] k = "txframeapi" ->        \* whole-client traces: frames are explained by ClientContract
            LET s1 == IF Op(s) = "no" /\ ev.nw > 0 THEN V(s, "WriteAfterClose") ELSE s
                s2 == IF ev.ok /\ (ev.from # CLIENT \/ ev.to # (IF ev.type = EXT_TYPE THEN CONSOLE_EXT ELSE CONSOLE))
                      THEN V(s1, "Addressing") ELSE s1
            IN IF ~ev.ok THEN V(s2, "GarbledFrame") ELSE s2
       [] k = "txgarbage" -> V(s, "GarbledFrame")
       [] k = "rxframe"   -> RxFrame(s, ev)
       [] k = "rxdefect"  -> RxDefect(s, ev)
       [] k = "deliver"   -> Deliver(s, ev)
       [] k = "notify"    -> Notify(s, ev)
       [] k = "unhandled" -> V(s, "UnhandledException")
       [] k = "quiesce"   -> Quiesce(s)
       [] k = "healbegin" -> HealBegin(s)
       [] k = "healend"   -> HealEnd(s)
       [] k = "residual"  -> Residual(s, ev)
       [] k = "block"     -> [s EXCEPT !.blocked = @ + 1]
       [] k = "release"   -> [s EXCEPT !.blocked = IF @ > 0 THEN @ - 1 ELSE 0]
       \* the console stopped reading (full send buffer): writes are still taken by the transport but
       \* their completion is withheld, so callers, and whoever waits for them, are blocked by the
       \* environment: promptness is not owed until the stall ends, and how many messages count as
       \* held is not fixed by the statements (bp).  Expiry, order, bounds stay in force.
       \* A connection that ends while stalled takes its send buffer with it: the frames handed over
       \* since the stall began may never have left, the client is told so (their completion fails) and
       \* MAY treat them as failed writes (mf: a re-send is allowed, not owed).
       [] k = "stall"     -> [s EXCEPT !.blocked = @ + 1, !.bp = TRUE, !.stalled = @ \cup {ev.c + 1}]
       [] k = "unstall"   -> [s EXCEPT !.blocked = IF @ > 0 THEN @ - 1 ELSE 0, !.stalled = @ \ {ev.c + 1},
                                       !.acc = [i \in Idx(s) |->
                                                  IF s.acc[i].sc = ev.c + 1
                                                  THEN [s.acc[i] EXCEPT !.sc = 0, !.mf = @ \/ ev.ended]
                                                  ELSE s.acc[i]]]
       [] OTHER           -> s

Step(s0, ev) == Idle(Track(Step1(s0, ev)))
=============================================================================
