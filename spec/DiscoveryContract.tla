-------------------------- MODULE DiscoveryContract --------------------------
(***************************************************************************)
(* C18: discovery.  Monitor over the events of one discover() call:        *)
(*   udp_open / udp_send / datagram / udp_close per search socket, call    *)
(*   and ret of pyairtouch.discover().                                     *)
(* Vendor v1.2 section 2a: request "::REQUEST-POLYAIRE-AIRTOUCH-DEVICE-INFO:;" *)
(* to UDP port 49005, answer "IP,ConsoleID,AirTouch5,AirTouchID,Name";     *)
(* AirTouch 4 (not in the vendor document, reverse engineered by the       *)
(* project): "HF-A11ASSISTHREAD" to 49004, answer "IP,MAC,AirTouch4,ID".   *)
(***************************************************************************)
EXTENDS Naturals, Integers, Sequences, FiniteSets, FiniteSetsExt, TLC, TLCExt

Eq(a, b) == TLCFP(a) = TLCFP(b)

INTERVAL == 500
MAXREQ   == 3
COMMA    == 44

Req4 == <<72,70,45,65,49,49,65,83,83,73,83,84,72,82,69,65,68>>                     \* HF-A11ASSISTHREAD
Req5 == <<58,58,82,69,81,85,69,83,84,45,80,79,76,89,65,73,82,69,45,65,73,82,84,79,85,67,72,45,
          68,69,86,73,67,69,45,73,78,70,79,58,59>>                                  \* ::REQUEST-POLYAIRE-AIRTOUCH-DEVICE-INFO:;
Tag4 == <<65,105,114,84,111,117,99,104,52>>                                         \* AirTouch4
Tag5 == <<65,105,114,84,111,117,99,104,53>>                                         \* AirTouch5
Name4 == <<65,105,114,84,111,117,99,104,32,52>>                                     \* "AirTouch 4": no name in the AT4 answer

Gen(port) == IF port = 49004 THEN 4 ELSE IF port = 49005 THEN 5 ELSE 0

\* position of the first comma at or after i (0 if none)
RECURSIVE NextComma(_, _)
NextComma(b, i) == IF i > Len(b) THEN 0 ELSE IF b[i] = COMMA THEN i ELSE NextComma(b, i + 1)

\* UTF-8 well-formedness (RFC 3629), needed because text that is not valid UTF-8 "adds nothing"
RECURSIVE Utf8(_, _)
Utf8(b, i) ==
  IF i > Len(b) THEN TRUE
  ELSE LET c == b[i]
           cont(k) == i + k <= Len(b) /\ \A j \in 1..k : b[i + j] >= 128 /\ b[i + j] <= 191
       IN IF c < 128 THEN Utf8(b, i + 1)
          ELSE IF c >= 194 /\ c <= 223 THEN cont(1) /\ Utf8(b, i + 2)
          ELSE IF c = 224 THEN cont(2) /\ b[i + 1] >= 160 /\ Utf8(b, i + 3)
          ELSE IF (c >= 225 /\ c <= 236) \/ c = 238 \/ c = 239 THEN cont(2) /\ Utf8(b, i + 3)
          ELSE IF c = 237 THEN cont(2) /\ b[i + 1] <= 159 /\ Utf8(b, i + 3)
          ELSE IF c = 240 THEN cont(3) /\ b[i + 1] >= 144 /\ Utf8(b, i + 4)
          ELSE IF c >= 241 /\ c <= 243 THEN cont(3) /\ Utf8(b, i + 4)
          ELSE IF c = 244 THEN cont(3) /\ b[i + 1] <= 143 /\ Utf8(b, i + 4)
          ELSE FALSE

\* reading of a datagram received on the search socket of generation g: an entry, or <<>>
Parse(g, b) ==
  LET c1 == NextComma(b, 1)
      c2 == IF c1 = 0 THEN 0 ELSE NextComma(b, c1 + 1)
      c3 == IF c2 = 0 THEN 0 ELSE NextComma(b, c2 + 1)
      c4 == IF c3 = 0 THEN 0 ELSE NextComma(b, c3 + 1)
  IN IF c3 = 0 \/ ~Utf8(b, 1) THEN <<>>
     ELSE LET host == SubSeq(b, 1, c1 - 1)
              ser  == SubSeq(b, c1 + 1, c2 - 1)
              tag  == SubSeq(b, c2 + 1, c3 - 1)
          IN IF g = 4
             THEN IF tag # Tag4 \/ c4 # 0 THEN <<>>       \* four parts exactly
                  ELSE <<[model |-> "AIRTOUCH_4", port |-> 9004, host |-> host, serial |-> ser,
                          airtouch_id |-> SubSeq(b, c3 + 1, Len(b)), name |-> Name4]>>
             ELSE IF tag # Tag5 \/ c4 = 0 THEN <<>>       \* five parts, commas inside the name preserved
                  ELSE <<[model |-> "AIRTOUCH_5", port |-> 9005, host |-> host, serial |-> ser,
                          airtouch_id |-> SubSeq(b, c3 + 1, c4 - 1), name |-> SubSeq(b, c4 + 1, Len(b))]>>

\* AT4 answers with more than three commas: the reverse-engineered format does not say whether the
\* id may contain commas; such an entry may or may not be reported
MayParse(g, b) ==
  LET c1 == NextComma(b, 1)
      c2 == IF c1 = 0 THEN 0 ELSE NextComma(b, c1 + 1)
      c3 == IF c2 = 0 THEN 0 ELSE NextComma(b, c2 + 1)
  IN IF g # 4 \/ c3 = 0 \/ ~Utf8(b, 1) \/ SubSeq(b, c2 + 1, c3 - 1) # Tag4 \/ NextComma(b, c3 + 1) = 0 THEN <<>>
     ELSE <<[model |-> "AIRTOUCH_4", port |-> 9004, host |-> SubSeq(b, 1, c1 - 1), serial |-> SubSeq(b, c1 + 1, c2 - 1),
             airtouch_id |-> SubSeq(b, c3 + 1, Len(b)), name |-> Name4]>>

D0 == [now |-> 0, t0 |-> -1, host |-> <<>>, socks |-> <<>>, called |-> FALSE, returned |-> FALSE,
       found |-> {}, may |-> {}, n |-> 0, viol |-> <<>>]
\* socks[u+1] = [g, open, sends, closed, answered (an answer arrived since the last request), t0]

DV(d, clause) == [d EXCEPT !.viol = IF Len(@) < 8 THEN Append(@, <<clause, d.n>>) ELSE @]

DStep(d0, ev) ==
  LET d == [d0 EXCEPT !.now = ev.t]
      k == ev.e
  IN CASE k = "calldiscover" -> [d EXCEPT !.called = TRUE, !.t0 = ev.t, !.host = ev.host]
       [] k = "udp_open" ->
            [d EXCEPT !.socks = Append(@, [g |-> Gen(ev.lport), sends |-> 0, closed |-> FALSE, answered |-> FALSE, maybe |-> FALSE, t0 |-> ev.t])]
       [] k = "udp_send" ->
            LET u == ev.u + 1
                s == d.socks[u]
                req == IF s.g = 4 THEN Req4 ELSE Req5
                d1 == IF ~Eq(ev.b, req) THEN DV(d, "WrongRequest") ELSE d
                d2 == IF ev.port # (IF s.g = 4 THEN 49004 ELSE 49005) THEN DV(d1, "WrongPort") ELSE d1
                d3 == IF ~Eq(ev.host, IF Eq(d.host, <<>>) THEN <<50,53,53,46,50,53,53,46,50,53,53,46,50,53,53>> ELSE d.host)
                      THEN DV(d2, "WrongDestination") ELSE d2
                d4 == IF s.sends >= MAXREQ THEN DV(d3, "TooManyRequests") ELSE d3
                d5 == IF ev.t # s.t0 + s.sends * INTERVAL THEN DV(d4, "RequestOffSchedule") ELSE d4
                d6 == IF s.answered THEN DV(d5, "RequestAfterAnswer") ELSE d5
                d7 == IF s.closed THEN DV(d6, "SendAfterClose") ELSE d6
            IN [d7 EXCEPT !.socks[u].sends = @ + 1]
       [] k = "datagram" ->
            LET u == ev.u + 1
                s == d.socks[u]
                e == Parse(s.g, ev.b)
                m == MayParse(s.g, ev.b)
            IN IF s.closed THEN d
               ELSE IF ~Eq(m, <<>>) THEN [d EXCEPT !.socks[u].maybe = TRUE, !.may = @ \cup {m[1]}]
               \* an answer (to somebody else's request) that arrives before the first request of this
               \* search is not "in an interval": whether it ends the search is not fixed
               \* nor is one that arrives at the very instant an interval ends (either order is acceptable)
               ELSE IF (s.sends = 0 \/ ev.t = s.t0 + s.sends * INTERVAL) /\ ~Eq(e, <<>>)
                    THEN [d EXCEPT !.socks[u].maybe = TRUE, !.may = @ \cup {e[1]}]
               ELSE IF Eq(e, <<>>) THEN d
               ELSE [d EXCEPT !.socks[u].answered = TRUE, !.found = @ \cup {e[1]}]
       [] k = "udp_close" -> [d EXCEPT !.socks[ev.u + 1].closed = TRUE]
       [] k = "retdiscover" ->
            LET d1 == IF ev.res # "ok" THEN DV(d, "DiscoverRaised") ELSE d
                got == {ev.val[i] : i \in 1..Len(ev.val)}
                d2 == IF ev.res = "ok" /\ Len(ev.val) # Cardinality(got) THEN DV(d1, "DuplicateEntry") ELSE d1
                d3 == IF ev.res = "ok" /\ \E x \in got : \A y \in d.found \cup d.may : ~Eq(x, y) THEN DV(d2, "SpuriousEntry") ELSE d2
                d4 == IF ev.res = "ok" /\ \E y \in d.found : \A x \in got : ~Eq(x, y) THEN DV(d3, "MissingEntry") ELSE d3
                d5 == IF \E u \in 1..Len(d.socks) : ~d.socks[u].closed THEN DV(d4, "SocketLeftOpen") ELSE d4
                d6 == IF \E u \in 1..Len(d.socks) : d.socks[u].sends = 0 /\ ~d.socks[u].maybe THEN DV(d5, "NoRequest") ELSE d5
            IN [d6 EXCEPT !.returned = TRUE]
       [] k = "end" ->
            LET d1 == IF d.called /\ ~d.returned THEN DV(d, "DiscoverHangs") ELSE d
                \* stops after the first interval with an answer, otherwise three requests
                d2 == IF \E u \in 1..Len(d.socks) : ~d.socks[u].answered /\ ~d.socks[u].maybe /\ d.socks[u].sends # MAXREQ
                      THEN DV(d1, "GaveUpEarly") ELSE d1
            IN d2
       [] OTHER -> d
=============================================================================
