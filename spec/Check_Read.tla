----------------------------- MODULE Check_Read -----------------------------
(***************************************************************************)
(* Prints the reference reading of payloads (batch): used to build message *)
(* objects for the round trip of C03 from the specification instead of     *)
(* from the decoder under test.                                            *)
(* Input (TRACE_FILE): {"traces": [{"id", "proto", "type", "payload"}]}     *)
(***************************************************************************)
EXTENDS Naturals, Sequences, TLC, Json, IOUtils, WireMsg

Cases == JsonDeserialize(IOEnv.TRACE_FILE).traces
VARIABLE l
Init == l = 1
Next == /\ l <= Len(Cases)
        /\ PrintT(<<"READ", Cases[l].id, ReadMsg(Cases[l].proto, Cases[l].type, Cases[l].payload)>>)
        /\ l' = l + 1
Done == TRUE
=============================================================================
