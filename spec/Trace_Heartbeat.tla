---------------------------- MODULE Trace_Heartbeat ----------------------------
(***************************************************************************)
(* As Trace_Client, for traces of a bare HeartbeatManager with a custom      *)
(* HeartbeatConfig (C08: "custom interval/timeout configurations").         *)
(* Batch validation of recorded whole-client traces: the byte front-end    *)
(* (SocketFront) lowers raw events; the socket contract judges connection  *)
(* handling, reception and shutdown; the client contract judges the API.   *)
(* Input as for Trace_Socket; each trace may carry "hb" = [interval,       *)
(* timeout] in ms for the HeartbeatManager-only scenarios.                 *)
(***************************************************************************)
EXTENDS Naturals, Sequences, TLC, Json, IOUtils, SocketFront

CONSTANTS QMAX, HB_I, HB_T      \* heartbeat interval and timeout of the configuration under test (ms)
SC == INSTANCE SocketContract
CC == INSTANCE ClientContract WITH HB_INTERVAL <- HB_I, HB_TIMEOUT <- HB_T, POLL_INTERVAL <- 300000, INIT_TIMEOUT <- 5000

Input  == JsonDeserialize(IOEnv.TRACE_FILE)
Traces == Input.traces
N      == Len(Traces)

VARIABLES tid, l, s, c, f
vars == <<tid, l, s, c, f>>

Init == tid = 1 /\ l = 1 /\ s = SC!S0 /\ c = CC!CS0(Traces[1].proto) /\ f = F0

ForSock(ev) == IF ev.e = "txframe" THEN [ev EXCEPT !.e = "txframeapi"] ELSE ev

RECURSIVE FoldS(_, _)
FoldS(st, evs) == IF evs = <<>> THEN st ELSE FoldS(SC!Step(st, ForSock(Head(evs))), Tail(evs))
RECURSIVE FoldC(_, _)
FoldC(st, evs) == IF evs = <<>> THEN st ELSE FoldC(CC!CStep(st, Head(evs)), Tail(evs))

Next ==
  /\ tid <= N
  /\ IF l <= Len(Traces[tid].ev)
     THEN LET r == Lower(Traces[tid].proto, f, Traces[tid].ev[l])
          IN /\ s' = FoldS([s EXCEPT !.n = l], r.out)
             /\ c' = FoldC([c EXCEPT !.n = l], r.out)
             /\ f' = r.f
             /\ l' = l + 1
             /\ tid' = tid
     ELSE /\ PrintT(<<"VERDICT", Traces[tid].id, s.viol \o c.viol>>)
          /\ tid' = tid + 1 /\ l' = 1 /\ s' = SC!S0 /\ f' = F0
          /\ c' = CC!CS0(IF tid < N THEN Traces[tid + 1].proto ELSE "at4")
=============================================================================
