---------------------------- MODULE SocketFront ----------------------------
(***************************************************************************)
(* Byte-level front-end of the socket contract: turns the raw events of a  *)
(* recorded trace (chunks offered to / fed from the simulated transport)   *)
(* into the abstract events SocketContract judges, using the reference     *)
(* framing (Wire) and the reference message reading (WireMsg).             *)
(***************************************************************************)
EXTENDS Naturals, Sequences, FiniteSets, Wire, WireMsg, WireMatch

F0 == [wb |-> <<>>, wd |-> <<>>, rb |-> <<>>, rdead |-> <<>>]

Count(seq, v) == Cardinality({i \in 1..Len(seq) : seq[i] = v})

\* pop complete frames from the offered stream of connection c (index c+1 = k)
RECURSIVE PopTx(_, _, _, _, _)
PopTx(proto, c, t, b, d) ==
  LET n == FrameLen(proto, b)
  IN IF n = 0 THEN [out |-> <<>>, b |-> b, d |-> d]
     ELSE IF HeaderDefect(proto, b)
          THEN [out |-> <<[e |-> "txgarbage", t |-> t, c |-> c]>>, b |-> <<>>, d |-> <<>>]
     ELSE IF Len(b) < n THEN [out |-> <<>>, b |-> b, d |-> d]
     ELSE LET fb == SubSeq(b, 1, n)
              fd == SubSeq(d, 1, n)
              u  == Unframe(proto, fb)
              ev == [e |-> "txframe", t |-> t, c |-> c, ok |-> u.ok,
                     alts |-> IF u.ok THEN LET m == ReadMsg(proto, u.type, u.payload) IN <<m, Gate(m)>> ELSE <<>>,
                     failed |-> \E i \in 1..n : fd[i] = 1, nw |-> Count(fd, 0),
                     to |-> u.to, from |-> u.from, pid |-> u.pid, type |-> u.type]
              r  == PopTx(proto, c, t, SubSeq(b, n + 1, Len(b)), SubSeq(d, n + 1, Len(d)))
          IN [out |-> <<ev>> \o r.out, b |-> r.b, d |-> r.d]

RECURSIVE PopRx(_, _, _, _)
PopRx(proto, c, t, b) ==
  LET n == FrameLen(proto, b)
  IN IF n = 0 THEN [out |-> <<>>, b |-> b, dead |-> FALSE]
     ELSE IF HeaderDefect(proto, b)
          THEN [out |-> <<[e |-> "rxdefect", t |-> t, c |-> c, why |-> "header"]>>, b |-> <<>>, dead |-> TRUE]
     ELSE IF Len(b) < n THEN [out |-> <<>>, b |-> b, dead |-> FALSE]
     ELSE LET fb == SubSeq(b, 1, n)
              u  == Unframe(proto, fb)
          IN IF ~u.ok
             THEN \* damaged frame of known extent (the header was plausible): what follows is still framed
                  LET r == PopRx(proto, c, t, SubSeq(b, n + 1, Len(b)))
                  IN [out |-> <<[e |-> "rxdefect", t |-> t, c |-> c, why |-> u.why]>> \o r.out, b |-> r.b, dead |-> r.dead]
             ELSE LET m  == ReadMsg(proto, u.type, u.payload)
                      h  == ReadHdr(proto, u)
                      sf == SoftMsg(proto, u.type, u.payload)
                      ev == [e |-> "rxframe", t |-> t, c |-> c,
                             alts |-> IF sf THEN <<[hdr |-> h, msg |-> m]>>
                                      ELSE <<[hdr |-> h, msg |-> m], [hdr |-> h, msg |-> Gate(m)]>>,
                             soft |-> sf]
                      r  == PopRx(proto, c, t, SubSeq(b, n + 1, Len(b)))
                  IN [out |-> <<ev>> \o r.out, b |-> r.b, dead |-> r.dead]

\* Lower(proto, f, raw) = [f |-> new front state, out |-> abstract events]
Lower(proto, f, raw) ==
  LET k == raw.e
  IN CASE k = "attempt" ->
            [f |-> [wb |-> Append(f.wb, <<>>), wd |-> Append(f.wd, <<>>),
                    rb |-> Append(f.rb, <<>>), rdead |-> Append(f.rdead, FALSE)],
             out |-> <<raw>>]
       [] k = "write" ->
            LET c == raw.c + 1
                r == PopTx(proto, raw.c, raw.t, f.wb[c] \o raw.b,
                           f.wd[c] \o [i \in 1..Len(raw.b) |-> raw.d])
            IN [f |-> [f EXCEPT !.wb[c] = r.b, !.wd[c] = r.d], out |-> r.out]
       [] k = "feed" ->
            LET c == raw.c + 1
            IN IF f.rdead[c] THEN [f |-> f, out |-> <<>>]
               ELSE LET r == PopRx(proto, raw.c, raw.t, f.rb[c] \o raw.b)
                    IN [f |-> [f EXCEPT !.rb[c] = r.b, !.rdead[c] = r.dead], out |-> r.out]
       [] OTHER -> [f |-> f, out |-> <<raw>>]
=============================================================================
