---------------------------- MODULE Check_Decode ----------------------------
(***************************************************************************)
(* C05 / C17a: every recorded decode result of the real decoders is judged *)
(* against the reference reading of the same payload.                      *)
(* Input (TRACE_FILE): {"traces": [{"id", "proto", "type", "payload",      *)
(*                                  "obs": {"ok": bool, "msg" | "exc"}}]}   *)
(* One step per case; a VERDICT line per case that is not accepted.        *)
(***************************************************************************)
EXTENDS Naturals, Sequences, TLC, Json, IOUtils, WireMsg, WireMatch

Cases == JsonDeserialize(IOEnv.TRACE_FILE).traces
N == Len(Cases)

VARIABLES l, bad, rejected
vars == <<l, bad, rejected>>

Init == l = 1 /\ bad = 0 /\ rejected = 0

Judge(c) ==
  LET ref  == ReadMsg(c.proto, c.type, c.payload)
      soft == SoftMsg(c.proto, c.type, c.payload)
  IN IF ~c.obs.ok
     THEN \* a payload may be rejected (C05), except the ones made of documented values only, whose
          \* announced stride (>= the known layout) and record count have to be honoured
          IF c.must THEN "DocumentedFrameRejected" ELSE "rejected"
     ELSE IF MatchMsg(ref, soft, c.obs.msg) THEN "ok"
     ELSE IF soft THEN "DefinedValueForNA" ELSE "Misdecoded"

Next ==
  /\ l <= N
  /\ LET v == Judge(Cases[l])
     IN /\ IF v \in {"ok", "rejected"} THEN TRUE ELSE PrintT(<<"VERDICT", Cases[l].id, <<<<v, l>>>>>>)
        /\ bad' = bad + (IF v \in {"ok", "rejected"} THEN 0 ELSE 1)
        /\ rejected' = rejected + (IF v = "rejected" THEN 1 ELSE 0)
  /\ l' = l + 1

\* printed once at the end: totals (the driver requires this line: total verdict)
Done == (l = N + 1) => PrintT(<<"TOTAL", N, bad, rejected>>)
=============================================================================
