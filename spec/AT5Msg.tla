------------------------------- MODULE AT5Msg -------------------------------
(***************************************************************************)
(* Reference reading of every AirTouch 5 message payload.                  *)
(*                                                                         *)
(* Source: "AirTouch 5 Communication Protocol" v1.2 (refs/at5_protocol_    *)
(* v1.2.txt), sections 4.a (0xC0) and 4.b (0x1F).  The vendor text does    *)
(* not document the AC timer messages (0xC0 sub types 0x32 / 0x33) nor the *)
(* quick timer (0x1F 0xFF 0x49): for those three the layout is taken from  *)
(* the module docstrings / comments of pyairtouch/at5/comms/xC032_*.py,    *)
(* xC033_*.py, x1FFF49_*.py and the vectors in tests/at5/comms (said again *)
(* at the operators).                                                      *)
(*                                                                         *)
(* ReadMsg(type, payload) gives the value that harness/project.py gives    *)
(* for the Python message object with the same meaning.  Conventions:      *)
(*   - console -> client payloads (status, ability, names, version, error) *)
(*     are read strictly: undocumented code -> "NA"; documented            *)
(*     not-available value -> << >> in an Optional field, "NA" otherwise;  *)
(*   - client -> console payloads (control) are read as the console would: *)
(*     "Other: keep" codes -> "UNCHANGED" / << >>;                         *)
(*   - lengths that do not fit the documented layout ->                    *)
(*     [k |-> "Undecodable", why |-> ...] at top level.                    *)
(* SoftMsg(type, payload) is TRUE iff that reading is Undecodable or has    *)
(* "NA" somewhere in it (computed next to each Dec_* operator).            *)
(* Bit numbering is the document's: Bit8 = most significant, Bit1 = least. *)
(* Temperatures are integer thousandths of a degree in a one-element       *)
(* sequence.                                                               *)
(***************************************************************************)
EXTENDS Naturals, Sequences, Bitwise, SequencesExt, FiniteSets, TLC

Undecodable(why) == [k |-> "Undecodable", why |-> why]

U16(p, i) == p[i] * 256 + p[i + 1]              \* 3.e / 4.a: first byte is the high byte

Bit(b, n) == (b \div (2 ^ (n - 1))) % 2 = 1     \* document bit n (1..8) of byte b
Field(b, hi, lo) == (b \div (2 ^ (lo - 1))) % (2 ^ (hi - lo + 1))   \* document bits hi..lo of byte b

\* set-point bytes: "setpoint = (value + 100) / 10" (4.a.i, ii, iii, iv), in thousandths
SetPointMilli(v) == (v + 100) * 100
\* temperature: "Temperature = (VALUE - 500) / 10" (4.a.ii, iv), in thousandths (may be negative)
TempMilli(v) == (v - 500) * 100
\* the 11-bit temperature VALUE: Byte5 Bit3-1 are the high bits, Byte6 the low byte
TempRaw(b5, b6) == (b5 % 8) * 256 + b6

\* fixed-width text "If less than 16 bytes, end with 0": bytes before the first 0x00
CString(s) ==
  IF \E i \in 1..Len(s) : s[i] = 0
  THEN SubSeq(s, 1, (CHOOSE i \in 1..Len(s) : s[i] = 0 /\ \A j \in 1..(i - 1) : s[j] # 0) - 1)
  ELSE s

\* split a byte string at every separator byte (the empty string gives one empty element)
Split(s, sep) ==
  LET cuts == <<0>> \o SelectSeq([i \in 1..Len(s) |-> i], LAMBDA i : s[i] = sep) \o <<Len(s) + 1>>
  IN [j \in 1..(Len(cuts) - 1) |-> SubSeq(s, cuts[j] + 1, cuts[j + 1] - 1)]

-----------------------------------------------------------------------------
(***************************************************************************)
(* 4.a  Control command and status message (0xC0)                          *)
(*   Byte1 sub message type, Byte2 keep 0, Byte3-4 normal data length,     *)
(*   Byte5-6 each repeat data length, Byte7-8 repeat data count;           *)
(*   Data length = 8 + normal length + repeat length * repeat count.       *)
(* Below, p is the whole 0xC0 payload, nl / rl / rc the three lengths and  *)
(* o the offset of a record: the record's document "ByteN" is p[o + N].    *)
(* Records start after the normal data (offset 8 + nl) and are rl apart    *)
(* ("If the protocol is upgraded, this value may change. Use this specific *)
(* value for data parsing.").                                              *)
(***************************************************************************)
CS_Sub(p) == p[1]
CS_NL(p)  == U16(p, 3)
CS_RL(p)  == U16(p, 5)
CS_RC(p)  == U16(p, 7)
CS_Off(p, i) == 8 + CS_NL(p) + (i - 1) * CS_RL(p)      \* offset of record i (1-based)

\* Data length rule of 4.a, written without forming rl * rc (both are 16-bit: the product
\* would leave TLC's integer range)
CS_LengthsOk(p) ==
  LET rest == Len(p) - 8 - CS_NL(p)
  IN /\ Len(p) >= 8 + CS_NL(p)
     /\ IF CS_RL(p) = 0 \/ CS_RC(p) = 0 THEN rest = 0
        ELSE rest % CS_RL(p) = 0 /\ rest \div CS_RL(p) = CS_RC(p)

\* "without any sub data (... repeat count: 0x00, repeat length: 0x00)": the request form
CS_Empty(p) == CS_NL(p) = 0 /\ CS_RL(p) = 0 /\ CS_RC(p) = 0

CS_Records(p, Rec(_, _)) == [i \in 1..CS_RC(p) |-> Rec(p, CS_Off(p, i))]

\* ---- 4.a.i Zone control (0x20), client -> console ------------------------
\* Byte1 Bit8-7 keep 0, Bit6-1 zone index; Byte2 Bit8-6 zone setting value, Bit5-4 control type,
\* Bit3-1 power; Byte3 value to set; Byte4 keep 0.
\* (The Python ZoneControlData has no field for the Bit5-4 control type: it cannot be shown.)
ZonePowerCtl(c) == CASE c = 1 -> "TOGGLE" [] c = 2 -> "TURN_OFF" [] c = 3 -> "TURN_ON" [] c = 5 -> "TURBO"
                     [] OTHER -> "UNCHANGED"
\* 010 decrease, 011 increase, 100 set open percentage (value 0-100), 101 set target setpoint
\* (value 0-250, setpoint = (value + 100) / 10); "Other: Keep setting value" for code and for value
ZoneSettingCtl(c, v) ==
  CASE c = 2 -> << "DECREASE" >>
    [] c = 3 -> << "INCREASE" >>
    [] c = 4 /\ v <= 100 -> << [k |-> "ZoneDamperControl", open_percentage |-> v] >>
    [] c = 5 /\ v <= 250 -> << [k |-> "ZoneSetPointControl", set_point |-> << SetPointMilli(v) >>] >>
    [] OTHER -> << >>
ZoneControlRec(p, o) ==
  [k |-> "ZoneControlData",
   zone_number  |-> Field(p[o + 1], 6, 1),
   zone_power   |-> ZonePowerCtl(Field(p[o + 2], 3, 1)),
   zone_setting |-> ZoneSettingCtl(Field(p[o + 2], 8, 6), p[o + 3])]
Dec_ZoneControl(p) ==
  IF CS_RL(p) < 4 THEN Undecodable("ZoneControl repeat length")
  ELSE [k |-> "ZoneControlMessage", zone_control |-> CS_Records(p, ZoneControlRec)]
\* Not part of ReadMsg (no Python field): the Byte2 Bit5-4 control type of each record of a 0xC0/0x20
\* payload, "01: Change type, 10: Set to percentage control, 11: Set to temperature control,
\* 00: Keep setting value (Must set 00 when no sensor)".  Only for payloads that ReadMsg reads as a
\* ZoneControlMessage.
ZoneTypeCtl(c) == CASE c = 1 -> "TOGGLE" [] c = 2 -> "DAMPER" [] c = 3 -> "TEMPERATURE" [] OTHER -> "UNCHANGED"
Aux_ZoneControlTypes(p) == [i \in 1..CS_RC(p) |-> ZoneTypeCtl(Field(p[CS_Off(p, i) + 2], 5, 4))]

\* ---- 4.a.ii Zone status (0x21), console -> client; empty form = request --
\* Byte1 Bit8-7 power state, Bit6-1 zone index; Byte2 Bit8 control method, Bit7-1 open percentage;
\* Byte3 set point, 0xFF invalid; Byte4 Bit8 sensor; Byte5 Bit3-1 + Byte6 temperature, 0-2000 valid,
\* "Other: Not available"; Byte7 Bit2 spill, Bit1 low battery; Byte8 and the rest NOT USED.
ZonePowerSt(c) == CASE c = 0 -> "OFF" [] c = 1 -> "ON" [] c = 3 -> "TURBO" [] OTHER -> "NA"
ZoneStatusRec(p, o) ==
  LET t == TempRaw(p[o + 5], p[o + 6])
  IN [k |-> "ZoneStatusData",
      zone_number       |-> Field(p[o + 1], 6, 1),
      power_state       |-> ZonePowerSt(Field(p[o + 1], 8, 7)),
      spill_active      |-> Bit(p[o + 7], 2),
      control_method    |-> IF Bit(p[o + 2], 8) THEN "TEMPERATURE" ELSE "DAMPER",
      has_sensor        |-> Bit(p[o + 4], 8),
      battery_status    |-> IF Bit(p[o + 7], 1) THEN "LOW" ELSE "NORMAL",
      temperature       |-> IF t <= 2000 THEN << TempMilli(t) >> ELSE << >>,
      damper_percentage |-> Field(p[o + 2], 7, 1),
      set_point         |-> IF p[o + 3] = 255 THEN << >> ELSE << SetPointMilli(p[o + 3]) >>]
Soft_ZoneStatusRec(p, o) == ZonePowerSt(Field(p[o + 1], 8, 7)) = "NA"
Dec_ZoneStatus(p) ==
  IF CS_Empty(p) THEN [k |-> "ZoneStatusRequest"]
  ELSE IF CS_RL(p) < 8 THEN Undecodable("ZoneStatus repeat length")
  ELSE [k |-> "ZoneStatusMessage", zones |-> CS_Records(p, ZoneStatusRec)]
Soft_ZoneStatus(p) == ~CS_Empty(p) /\ \E i \in 1..CS_RC(p) : Soft_ZoneStatusRec(p, CS_Off(p, i))

\* ---- 4.a.iii AC control (0x22), client -> console -------------------------
\* Byte1 Bit8-5 power setting, Bit4-1 AC index; Byte2 Bit8-5 AC mode, Bit4-1 fan speed;
\* Byte3 setpoint control 0x40 change / 0x00 keep / "Other: Invalidate data";
\* Byte4 setpoint value, "Available when byte3 is 0x40".
AcPowerCtl(c) == CASE c = 1 -> "TOGGLE" [] c = 2 -> "TURN_OFF" [] c = 3 -> "TURN_ON" [] c = 4 -> "SET_TO_AWAY"
                   [] c = 5 -> "SET_TO_SLEEP" [] OTHER -> "UNCHANGED"
AcModeCtl(c)  == CASE c = 0 -> "AUTO" [] c = 1 -> "HEAT" [] c = 2 -> "DRY" [] c = 3 -> "FAN" [] c = 4 -> "COOL"
                   [] OTHER -> "UNCHANGED"
AcFanCtl(c)   == CASE c = 0 -> "AUTO" [] c = 1 -> "QUIET" [] c = 2 -> "LOW" [] c = 3 -> "MEDIUM" [] c = 4 -> "HIGH"
                   [] c = 5 -> "POWERFUL" [] c = 6 -> "TURBO" [] c = 8 -> "INTELLIGENT_AUTO"
                   [] OTHER -> "UNCHANGED"
AcControlRec(p, o) ==
  [k |-> "AcControlData",
   ac_number |-> Field(p[o + 1], 4, 1),
   power     |-> AcPowerCtl(Field(p[o + 1], 8, 5)),
   mode      |-> AcModeCtl(Field(p[o + 2], 8, 5)),
   fan_speed |-> AcFanCtl(Field(p[o + 2], 4, 1)),
   set_point |-> IF p[o + 3] = 64 THEN << SetPointMilli(p[o + 4]) >> ELSE << >>]
\* a Byte3 that is neither 0x40 nor 0x00 is "Invalidate data": the record is not a valid command
AcControlRecInvalid(p, o) == p[o + 3] # 64 /\ p[o + 3] # 0
Dec_AcControl(p) ==
  IF CS_RL(p) < 4 THEN Undecodable("AcControl repeat length")
  ELSE IF \E i \in 1..CS_RC(p) : AcControlRecInvalid(p, CS_Off(p, i))
       THEN Undecodable("AcControl setpoint control byte")
  ELSE [k |-> "AcControlMessage", ac_control |-> CS_Records(p, AcControlRec)]

\* ---- 4.a.iv AC status (0x23), console -> client; empty form = request ----
\* Byte1 Bit8-5 power state, Bit4-1 AC index; Byte2 Bit8-5 mode, Bit4-1 fan speed; Byte3 setpoint
\* 0-250, "Other: Not available"; Byte4 Bit4 turbo, Bit3 bypass, Bit2 spill, Bit1 timer;
\* Byte5 Bit3-1 + Byte6 temperature 0-2000, "Other: Not available"; Byte7-8 error code;
\* Byte9-10 NOT USED ("Some version does not have those two bytes").
AcPowerSt(c) == CASE c = 0 -> "OFF" [] c = 1 -> "ON" [] c = 2 -> "OFF_AWAY" [] c = 3 -> "ON_AWAY" [] c = 5 -> "SLEEP"
                  [] OTHER -> "NA"
AcModeSt(c)  == CASE c = 0 -> "AUTO" [] c = 1 -> "HEAT" [] c = 2 -> "DRY" [] c = 3 -> "FAN" [] c = 4 -> "COOL"
                  [] c = 8 -> "AUTO_HEAT" [] c = 9 -> "AUTO_COOL" [] OTHER -> "NA"
\* "1001 - 1110: Intelligent Auto": the Python enum names the six codes after the plain speed
\* with code - 8 (quiet .. turbo)
AcFanSt(c)   == CASE c = 0 -> "AUTO" [] c = 1 -> "QUIET" [] c = 2 -> "LOW" [] c = 3 -> "MEDIUM" [] c = 4 -> "HIGH"
                  [] c = 5 -> "POWERFUL" [] c = 6 -> "TURBO"
                  [] c = 9 -> "INTELLIGENT_AUTO_QUIET" [] c = 10 -> "INTELLIGENT_AUTO_LOW"
                  [] c = 11 -> "INTELLIGENT_AUTO_MEDIUM" [] c = 12 -> "INTELLIGENT_AUTO_HIGH"
                  [] c = 13 -> "INTELLIGENT_AUTO_POWERFUL" [] c = 14 -> "INTELLIGENT_AUTO_TURBO"
                  [] OTHER -> "NA"
AcStatusRec(p, o) ==
  LET t == TempRaw(p[o + 5], p[o + 6])
  IN [k |-> "AcStatusData",
      ac_number     |-> Field(p[o + 1], 4, 1),
      power_state   |-> AcPowerSt(Field(p[o + 1], 8, 5)),
      mode          |-> AcModeSt(Field(p[o + 2], 8, 5)),
      fan_speed     |-> AcFanSt(Field(p[o + 2], 4, 1)),
      turbo_active  |-> Bit(p[o + 4], 4),
      bypass_active |-> Bit(p[o + 4], 3),
      spill_active  |-> Bit(p[o + 4], 2),
      timer_set     |-> Bit(p[o + 4], 1),
      set_point     |-> IF p[o + 3] <= 250 THEN << SetPointMilli(p[o + 3]) >> ELSE "NA",
      temperature   |-> IF t <= 2000 THEN << TempMilli(t) >> ELSE "NA",
      error_code    |-> U16(p, o + 7)]
Soft_AcStatusRec(p, o) ==
  \/ AcPowerSt(Field(p[o + 1], 8, 5)) = "NA"
  \/ AcModeSt(Field(p[o + 2], 8, 5)) = "NA"
  \/ AcFanSt(Field(p[o + 2], 4, 1)) = "NA"
  \/ p[o + 3] > 250
  \/ TempRaw(p[o + 5], p[o + 6]) > 2000
Dec_AcStatus(p) ==
  IF CS_Empty(p) THEN [k |-> "AcStatusRequest"]
  ELSE IF CS_RL(p) < 8 THEN Undecodable("AcStatus repeat length")
  ELSE [k |-> "AcStatusMessage", ac_status |-> CS_Records(p, AcStatusRec)]
Soft_AcStatus(p) == ~CS_Empty(p) /\ \E i \in 1..CS_RC(p) : Soft_AcStatusRec(p, CS_Off(p, i))

\* ---- AC timer control (0x32) / AC timer status (0x33) --------------------
\* NOT in the vendor text.  Layout from the docstrings/comments of xC033_ac_timer_status.py
\* ("AC Number + On-Timer + Off-Timer + Padding", "four trailing 0-bytes", repeat size 9) and
\* xC032_ac_timer_ctrl.py ("contents ... identical to the AC Timer Status Message"), and the
\* vectors of tests/at5/comms/test_xC033_ac_timer_status.py / test_xC032_ac_timer_ctrl.py
\* (01 82 03 84 05 00 00 00 00 = AC 1, on-timer disabled 02:03, off-timer disabled 04:05):
\* Byte1 AC number; Byte2 Bit8 on-timer disabled, Bit5-1 hour; Byte3 Bit6-1 minute;
\* Byte4-5 the same for the off-timer; Byte6-9 padding.  0x33 in the empty form = request.
TimerState(b1, b2) == [k |-> "AcTimerState", disabled |-> Bit(b1, 8), hour |-> Field(b1, 5, 1),
                       minute |-> Field(b2, 6, 1)]
AcTimerRec(p, o) ==
  [k |-> "AcTimerStatusData", ac_number |-> p[o + 1],
   on_timer  |-> TimerState(p[o + 2], p[o + 3]),
   off_timer |-> TimerState(p[o + 4], p[o + 5])]
Dec_AcTimerStatus(p) ==
  IF CS_Empty(p) THEN [k |-> "AcTimerStatusRequest"]
  ELSE IF CS_RL(p) < 9 THEN Undecodable("AcTimerStatus repeat length")
  ELSE [k |-> "AcTimerStatusMessage", ac_timer_status |-> CS_Records(p, AcTimerRec)]
Dec_AcTimerControl(p) ==
  IF CS_RL(p) < 9 THEN Undecodable("AcTimerControl repeat length")
  ELSE [k |-> "AcTimerControlMessage", ac_timer_status |-> CS_Records(p, AcTimerRec)]

\* ---- 4.a the wrapper -------------------------------------------------------
CS_Wrap(m) == IF m.k = "Undecodable" THEN m ELSE [k |-> "ControlStatusMessage", sub_message |-> m]
Dec_ControlStatus(p) ==
  IF Len(p) < 8 THEN Undecodable("ControlStatus sub-header")
  ELSE IF ~CS_LengthsOk(p) THEN Undecodable("ControlStatus lengths")
  ELSE CS_Wrap(CASE CS_Sub(p) = 32 -> Dec_ZoneControl(p)
                 [] CS_Sub(p) = 33 -> Dec_ZoneStatus(p)
                 [] CS_Sub(p) = 34 -> Dec_AcControl(p)
                 [] CS_Sub(p) = 35 -> Dec_AcStatus(p)
                 [] CS_Sub(p) = 50 -> Dec_AcTimerControl(p)
                 [] CS_Sub(p) = 51 -> Dec_AcTimerStatus(p)
                 [] OTHER -> [k |-> "UnsupportedMessage", unsupported_id |-> CS_Sub(p),
                              raw_data |-> SubSeq(p, 9, Len(p))])
\* only meaningful when Dec_ControlStatus(p) is not Undecodable
Soft_ControlStatus(p) ==
  CASE CS_Sub(p) = 33 -> Soft_ZoneStatus(p)
    [] CS_Sub(p) = 35 -> Soft_AcStatus(p)
    [] OTHER -> FALSE

-----------------------------------------------------------------------------
(***************************************************************************)
(* 4.b  Extended message (0x1F): "The first two bytes of the data are used *)
(* to specify the specific command."  Below r is the data after those two  *)
(* bytes, so the document's "ByteN" (N >= 3) is r[N - 2].                  *)
(***************************************************************************)
All == <<65, 76, 76>>      \* Literal["ALL"] of the Python request classes

\* ---- 4.b.i AC ability (0xFF 0x11) ------------------------------------------
\* Request: "data 0xFF 0x11 or (0xFF 0x11 [0-3])": nothing or one AC index after the id.
\* Response, per AC: Byte3 AC index, Byte4 following data length ("count of following bytes belong to
\* the ability of this AC. (24 at this moment)"), Byte5-20 name, Byte21 start zone, Byte22 zone count,
\* Byte23 Bit5 cool, Bit4 fan, Bit3 dry, Bit2 heat, Bit1 auto; Byte24 Bit8 intelligent auto, Bit7 turbo,
\* Bit6 powerful, Bit5 high, Bit4 medium, Bit3 low, Bit2 quiet, Bit1 auto; Byte25-28 min/max cool,
\* min/max heat set point.  "the data will be repeated": the next AC starts after the announced
\* following length.  o = offset of the record in r (record ByteN is r[o + N - 2]).
\* The Python object's two support maps carry a constant entry UNCHANGED -> True ("always supported");
\* UNCHANGED is a TLA+ keyword, so that field is attached with :> / @@.
KeepSupported == "UNCHANGED" :> TRUE
AbilityRec(r, o) ==
  [k |-> "AcAbility",
   ac_number  |-> r[o + 1],
   ac_name    |-> CString(SubSeq(r, o + 3, o + 18)),
   start_zone |-> r[o + 19],
   zone_count |-> r[o + 20],
   ac_mode_support   |-> [AUTO |-> Bit(r[o + 21], 1), HEAT |-> Bit(r[o + 21], 2), DRY |-> Bit(r[o + 21], 3),
                          FAN |-> Bit(r[o + 21], 4), COOL |-> Bit(r[o + 21], 5)] @@ KeepSupported,
   fan_speed_support |-> [AUTO |-> Bit(r[o + 22], 1), QUIET |-> Bit(r[o + 22], 2), LOW |-> Bit(r[o + 22], 3),
                          MEDIUM |-> Bit(r[o + 22], 4), HIGH |-> Bit(r[o + 22], 5),
                          POWERFUL |-> Bit(r[o + 22], 6), TURBO |-> Bit(r[o + 22], 7),
                          INTELLIGENT_AUTO |-> Bit(r[o + 22], 8)] @@ KeepSupported,
   min_cool_set_point |-> r[o + 23],
   max_cool_set_point |-> r[o + 24],
   min_heat_set_point |-> r[o + 25],
   max_heat_set_point |-> r[o + 26]]
RECURSIVE AbilityRecs(_, _, _)
AbilityRecs(r, o, acc) ==
  IF o = Len(r) THEN [ok |-> TRUE, recs |-> acc]
  ELSE IF o + 2 > Len(r) \/ r[o + 2] < 24 \/ o + 2 + r[o + 2] > Len(r) THEN [ok |-> FALSE, recs |-> acc]
  ELSE AbilityRecs(r, o + 2 + r[o + 2], Append(acc, AbilityRec(r, o)))
Dec_AcAbility(r) ==
  IF Len(r) = 0 THEN [k |-> "AcAbilityRequest", ac_number |-> All]
  ELSE IF Len(r) = 1 THEN [k |-> "AcAbilityRequest", ac_number |-> r[1]]
  ELSE LET a == AbilityRecs(r, 0, << >>)
       IN IF a.ok THEN [k |-> "AcAbilityMessage", ac_abilities |-> a.recs]
          ELSE Undecodable("AcAbility following data length")

\* ---- 4.b.ii AC error information (0xFF 0x10) -------------------------------
\* Request: "0xFF 0x10 [0-15]": one AC index.  Response: Byte3 AC index, Byte4 error info length
\* ("If no error, will be 0"), Byte5.. error info string.
Dec_AcErrorInfo(r) ==
  IF Len(r) = 1 THEN [k |-> "AcErrorInformationRequest", ac_number |-> r[1]]
  ELSE IF Len(r) < 2 \/ Len(r) # 2 + r[2] THEN Undecodable("AcErrorInformation length")
  ELSE [k |-> "AcErrorInformationMessage", ac_number |-> r[1],
        error_info |-> IF r[2] = 0 THEN << >> ELSE << SubSeq(r, 3, 2 + r[2]) >>]

\* ---- 4.b.iii Zone name (0xFF 0x13) -----------------------------------------
\* Request: "0xFF 0x13 [0-15]" one zone, or nothing for all zones.  Response, per zone: Byte3 zone
\* index, Byte4 name length, Byte5..n name; "the data will be repeated".
\* The Python object is a mapping zone -> name: pairs sorted by zone; a zone named twice keeps the
\* name given last.
RECURSIVE ZoneNameRecs(_, _, _)
ZoneNameRecs(r, o, acc) ==
  IF o = Len(r) THEN [ok |-> TRUE, recs |-> acc]
  ELSE IF o + 2 > Len(r) \/ o + 2 + r[o + 2] > Len(r) THEN [ok |-> FALSE, recs |-> acc]
  ELSE ZoneNameRecs(r, o + 2 + r[o + 2], Append(acc, << r[o + 1], SubSeq(r, o + 3, o + 2 + r[o + 2]) >>))
ZoneNamePairs(recs) ==
  LET n    == Len(recs)
      last == {i \in 1..n : \A j \in (i + 1)..n : recs[j][1] # recs[i][1]}    \* final word per zone
      zs   == SetToSortSeq({recs[i][1] : i \in last}, LAMBDA a, b : a < b)
  IN [q \in 1..Len(zs) |-> recs[CHOOSE i \in last : recs[i][1] = zs[q]]]
Dec_ZoneNames(r) ==
  IF Len(r) = 0 THEN [k |-> "ZoneNamesRequest", zone_number |-> All]
  ELSE IF Len(r) = 1 THEN [k |-> "ZoneNamesRequest", zone_number |-> r[1]]
  ELSE LET z == ZoneNameRecs(r, 0, << >>)
       IN IF z.ok THEN [k |-> "ZoneNamesMessage", zone_names |-> ZoneNamePairs(z.recs)]
          ELSE Undecodable("ZoneNames name length")

\* ---- 4.b.iv Console version (0xFF 0x30) ------------------------------------
\* Request: nothing after the id.  Response: Byte3 update sign "0-latest version, Other-new version
\* available", Byte4 version string length, Byte5.. versions "Two consoles separated by ,".
Dec_ConsoleVersion(r) ==
  IF Len(r) = 0 THEN [k |-> "ConsoleVersionRequest"]
  ELSE IF Len(r) < 2 \/ Len(r) # 2 + r[2] THEN Undecodable("ConsoleVersion length")
  ELSE [k |-> "ConsoleVersionMessage", update_available |-> r[1] # 0,
        versions |-> Split(SubSeq(r, 3, 2 + r[2]), 44)]

\* ---- Quick timer (0xFF 0x49), client -> console ----------------------------
\* NOT in the vendor text.  Layout from x1FFF49_quick_timer.py (docstring "turning an AC on/off a
\* set number of hours/minutes in the future", struct of four bytes, TimerType OFF_TIMER = 0 /
\* ON_TIMER = 1) and tests/at5/comms/test_x1FFF49_quick_timer.py (01 00 02 03 = AC 1, off-timer,
\* 2 h 3 min; 01 01 ff 3b = 255 h 59 min): Byte3 AC number, Byte4 timer type, Byte5 hours,
\* Byte6 minutes.  No source defines any other timer type code: "NA".
TimerTypeOf(c) == CASE c = 0 -> "OFF_TIMER" [] c = 1 -> "ON_TIMER" [] OTHER -> "NA"
Dec_QuickTimer(r) ==
  IF Len(r) # 4 THEN Undecodable("QuickTimer length")
  ELSE LET mins == r[3] * 60 + r[4]
       IN [k |-> "QuickTimerMessage", ac_number |-> r[1], timer_type |-> TimerTypeOf(r[2]),
           duration |-> [k |-> "timedelta", d |-> mins \div 1440, s |-> (mins % 1440) * 60, us |-> 0]]
Soft_QuickTimer(r) == TimerTypeOf(r[2]) = "NA"

\* ---- 4.b the wrapper -------------------------------------------------------
Ext_Id(p)   == U16(p, 1)
Ext_Rest(p) == SubSeq(p, 3, Len(p))
Ext_Wrap(m) == IF m.k = "Undecodable" THEN m ELSE [k |-> "ExtendedMessage", sub_message |-> m]
Dec_Extended(p) ==
  IF Len(p) < 2 THEN Undecodable("Extended command bytes")
  ELSE LET r == Ext_Rest(p)
       IN Ext_Wrap(CASE Ext_Id(p) = 65296 -> Dec_AcErrorInfo(r)        \* 0xFF10
                     [] Ext_Id(p) = 65297 -> Dec_AcAbility(r)          \* 0xFF11
                     [] Ext_Id(p) = 65299 -> Dec_ZoneNames(r)          \* 0xFF13
                     [] Ext_Id(p) = 65328 -> Dec_ConsoleVersion(r)     \* 0xFF30
                     [] Ext_Id(p) = 65353 -> Dec_QuickTimer(r)         \* 0xFF49
                     [] OTHER -> [k |-> "UnsupportedMessage", unsupported_id |-> Ext_Id(p), raw_data |-> r])
\* only meaningful when Dec_Extended(p) is not Undecodable
Soft_Extended(p) == Ext_Id(p) = 65353 /\ Soft_QuickTimer(Ext_Rest(p))

-----------------------------------------------------------------------------
\* 3.d: "There are two message types: 0xC0 ... 0x1F ... Ignore any other received types."
ReadMsg(type, payload) ==
  CASE type = 192 -> Dec_ControlStatus(payload)
    [] type = 31  -> Dec_Extended(payload)
    [] OTHER -> [k |-> "UnsupportedMessage", unsupported_id |-> type, raw_data |-> payload]

\* The reading does not depend on the address (the zero-zone echo of docs/design.md is handled by
\* the API layer, not by the reading of the payload).
ReadMsgTo(to, type, payload) == ReadMsg(type, payload)

\* TRUE iff ReadMsg(type, payload) is Undecodable or has "NA" somewhere in it: the frame carries
\* something the documents do not define, an implementation may reject it instead of delivering it.
SoftMsg(type, payload) ==
  \/ ReadMsg(type, payload).k = "Undecodable"
  \/ CASE type = 192 -> Soft_ControlStatus(payload)
       [] type = 31  -> Soft_Extended(payload)
       [] OTHER -> FALSE
=============================================================================
