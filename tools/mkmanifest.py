#!/usr/bin/env python3
"""Regenerates /verif/MANIFEST.json from the table below (kept in one place so that it stays valid)."""
import json
import os

ROOT = os.path.dirname(os.path.dirname(os.path.abspath(__file__)))

SOCK_NOTE = ("Assumes CPython 3.12 asyncio stream semantics (real StreamReader/Writer/Protocol classes on a fake transport that "
             "mirrors _SelectorSocketTransport), the TLA+ contract/monitor as the reading of the property, TLC, and the "
             "harness executor (no oracle). SocketImpl results are for the stated constants; replayed/generated executions are "
             "those listed in the evidence.")

CHECKS = {
    "C01": ("TLC model-checks the implementation-shaped TLA+ model SocketImpl against the L1 contract monitor SocketContract "
            "(clauses NoFabrication, OnceUnlessFailed, FirstTxInOrder, PromptAtQuiesce, GarbledFrame) exhaustively for small constants; "
            "TLC-generated schedules, seeded order/mixed scripts and >256-send long runs are executed on the real AirTouchSocket and every "
            "recorded trace is validated by TLC against the contract through the byte-level front-end (reference framing, CRC and "
            "message reading in TLA+).", "6 C01", SOCK_NOTE),
    "C02": ("Same machinery with the retry clauses AttemptBound, NotAfterExpiry, FailedFirstOnNext, FailedNotResent: SocketImpl explored with "
            "all three policies and write faults; scripts place faults/refusals/connections at lifetime -125/0/+125 ms.", "6 C02", SOCK_NOTE),
    "C07": ("SocketImpl explored by TLC with the full fault alphabet (refuse, EOF, reset, bad frame, write fault, unencodable message, explicit reset, "
            "subscribers) against AtMostOne, AbandonedClosed, NoWedge, NoGiveUp and the contract; every replayed and generated fault script ends "
            "with a heal phase judged by the clauses HealNotConnected/HealNotReceiving/HealNotTransmitting/AbandonedNotClosed.", "6 C07", SOCK_NOTE),
    "C13": ("Byte streams of 1..3 intact frames of both generations cut at every set of <=2 (<=3 for short streams) positions, byte-by-byte and "
            "randomly, with 0..3 loop iterations between segments; TLC validates each recorded trace: deliveries = reference readings of the "
            "concatenated stream, once each, in order, no spurious reset.", "6 C13", SOCK_NOTE),
    "C15": ("SocketImpl with close() enabled in every state against ClosedIsFinal and the contract clauses AttemptAfterClose, WriteAfterClose, "
            "NotifyAfterClose, ResidualTasks, ConnLeftOpen, NotOpenNotRaised; scripts call close() at chosen instants and k loop iterations, "
            "idle 10 s, send (must raise), optional re-open with heal phase.", "6 C15", SOCK_NOTE),
    "C16": ("SocketImpl with the queue bound scaled to 2 (only the length matters) against QueueBound and the contract clauses OverflowNotRaised, "
            "SpuriousOverflow, RejectedButSent, SpuriousNotOpen, NotAfterExpiry; scripts queue up to 14 messages with mixed lifetimes while "
            "down, cross expiries, then connect.", "6 C16", SOCK_NOTE),
}

WIRE_NOTE = ("The reference is the TLA+ wire layer (Crc16, Wire, AT4Msg, AT5Msg, WireMatch) transcribed from the vendor documents "
             "(timer/quick-timer layouts from the repository docstrings); TLC evaluates it on every case. Exhaustive per byte position, "
             "per field cross product and (thorough) per adjacent byte pair; sampled beyond. Nothing is proved about Python code.")

CHECKS.update({
    "C03": ("Every control/request object (enumerated descriptions) and every status-type object (what the real decoder makes of intact console "
            "payloads) is sent through the real send path; the written bytes are framed and read by the TLA+ wire layer (lengths, nested "
            "sub-header lengths, CRC, reading = submitted object) and fed back into the real receive path; TLC validates the recorded trace "
            "(delivered header/message = reference reading, nothing left over, no reset).", "6 C03", WIRE_NOTE),
    "C05": ("The public decoders are run on payloads swept per byte position (256 values), per adjacent byte pair, over record counts 0..16, "
            "announced strides and the cross product of documented codes; TLC judges every (payload, result) pair with Check_Decode: equal to "
            "the reference reading (or its sensor-gated variant), absent where the reference is not-available, or rejected.", "6 C05", WIRE_NOTE),
    "C06": ("TLC checks the table lemma of Crc16 over all 65536 register values and the vendor anchors, judges calculate()/validate() on all 1- and "
            "2-byte strings (Check_Crc) and supplies the table for the fold over 3-byte strings; frames damaged by single/double-bit and burst "
            "errors are fed to the real socket and the traces validated against the contract (no delivery, reset, heal).", "6 C06", WIRE_NOTE),
    "C17": ("Frames of every unregistered type byte, unregistered 0x1F ids and 0xC0 sub-types and longer strides are fed on a live connection "
            "(strict: delivered as unsupported, no reset); random, mutated (recomputed CRC), truncated and wrong-length streams are fed and the "
            "traces validated: nothing misread, no unhandled exception, heal phase succeeds.", "6 C17", WIRE_NOTE + " " + SOCK_NOTE),
})

TECH = "TLA+ spec (SocketImpl + SocketContract) model-checked by TLC; TLC-generated schedules replayed into the code; recorded traces validated by TLC (trace validation)"


def main():
    checks = []
    for pid, (text, ref, note) in CHECKS.items():
        checks.append({
            "property_id": pid,
            "quick_cmd": f"/venv/bin/python checks/check.py {pid} --tier quick",
            "thorough_cmd": f"/venv/bin/python checks/check.py {pid} --tier thorough",
            "evidence_file": f"/verif/evidence/{pid}.json",
            "replay_cmd_template": f"/venv/bin/python checks/check.py {pid} --replay {{path}}",
            "engine": "tlc+harness",
            "level_claimed": {"category": "model_checking", "text": text, "design_ref": "DESIGN.md section " + ref},
            "level_note": note,
            "technique": TECH if pid not in ("C03", "C05", "C06", "C17") else
            "TLA+ reference wire specification evaluated by TLC on recorded results of the real codecs / validated traces of the real socket",
        })
    claimed = set(CHECKS)
    allp = [json.loads(l)["id"] for l in open(os.path.join(ROOT, "properties.jsonl"))]
    na = [{"property_id": p, "reason": "check under construction in this round (specification modules exist; no registered command yet)"}
          for p in allp if p not in claimed]
    m = {
        "version": 1,
        "setup_cmd": "cd /verif && /venv/bin/python tools/setup_check.py",
        "hooks": {
            "guard": "PYAIRTOUCH_VERIF",
            "enable": "no hooks are needed: every observation is made through the public API and the simulated transport",
            "baseline_off_cmd": "cd /repo && /venv/bin/python -m pytest -q -p no:cacheprovider",
            "source_commits": [],
            "add_only": True,
        },
        "engines": [{"name": "tlc+harness", "path": "/verif/checks/check.py", "serves_properties": sorted(claimed),
                     "kind_free_text": "TLC 1.8 on the TLA+ modules in /verif/spec; deterministic virtual-time asyncio harness in /verif/harness"}],
        "checks": checks,
        "not_applicable": na,
        "notes": "known_findings.json lists repaired defects (fixed:) and recorded findings; DESIGN.md explains the approach.",
    }
    with open(os.path.join(ROOT, "MANIFEST.json"), "w") as f:
        json.dump(m, f, indent=1)
    print("MANIFEST.json written:", len(checks), "checks,", len(na), "not yet claimed")


if __name__ == "__main__":
    main()
