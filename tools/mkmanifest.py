#!/usr/bin/env python3
"""Regenerates /verif/MANIFEST.json from the table below (kept in one place so that it stays valid)."""
import json
import os

ROOT = os.path.dirname(os.path.dirname(os.path.abspath(__file__)))

SOCK_NOTE = ("Assumes CPython 3.12 asyncio stream semantics (real StreamReader/Writer/Protocol classes on a fake transport that "
             "mirrors _SelectorSocketTransport), the TLA+ contract/monitor as the reading of the property, TLC, and the "
             "harness executor (no oracle). SocketImpl results are for the stated constants; replayed/generated executions are "
             "those listed in the evidence.")

CHECKS = {
    "C01": ("TLC model-checks the implementation-shaped TLA+ model SocketImpl against the L1 contract monitor SocketContract "
            "(clauses NoFabrication, OnceUnlessFailed, FirstTxInOrder, PromptAtQuiesce, GarbledFrame) exhaustively for small constants; "
            "also with back-pressure stalls and send() calls cancelled by their caller while suspended in drain(); "
            "TLC-generated schedules, seeded order/mixed/stalled-connection scripts and >256-send long runs are executed on the real AirTouchSocket and every "
            "recorded trace is validated by TLC against the contract through the byte-level front-end (reference framing, CRC and "
            "message reading in TLA+). Thorough: sensitivity runs F_ENQ=FALSE must violate OnceUnlessFailed, F_SOLO=FALSE must violate PromptAtQuiesce.", "6 C01", SOCK_NOTE),
    "C02": ("Same machinery with the retry clauses AttemptBound, NotAfterExpiry, FailedFirstOnNext, FailedNotResent: SocketImpl explored with "
            "all three policies, write faults and back-pressure stalls (drain suspended while lifetimes run out; F_CLOCK sensitivity); scripts place "
            "faults/refusals/connections at lifetime -125/0/+125 ms and drain held messages into connections that stall.", "6 C02", SOCK_NOTE),
    "C07": ("SocketImpl explored by TLC with the full fault alphabet (refuse, EOF, reset, bad frame, write fault, unencodable message, explicit reset, "
            "subscribers) against AtMostOne, AbandonedClosed, NoWedge, NoGiveUp and the contract; every replayed and generated fault script ends "
            "with a heal phase judged by the clauses HealNotConnected/HealNotReceiving/HealNotTransmitting/AbandonedNotClosed; GaveUpConnecting "
            "(open, idle > 2.5 s, nothing connected or pending) is judged at every checkpoint. Link failures use every OSError family; stalled "
            "transports defer their close (overlapping resets). Thorough: F_DRAIN / F_ONE sensitivity runs.", "6 C07", SOCK_NOTE),
    "C13": ("Byte streams of 1..3 intact frames of both generations cut at every set of <=2 (<=3 for short streams) positions, byte-by-byte and "
            "randomly, with 0..3 loop iterations and 0.125..30 s between segments; TLC validates each recorded trace: deliveries = reference readings of the "
            "concatenated stream, once each, in order, no spurious reset.", "6 C13", SOCK_NOTE),
    "C15": ("SocketImpl with close() enabled in every state against ClosedIsFinal and the contract clauses AttemptAfterClose, WriteAfterClose, "
            "NotifyAfterClose, ResidualTasks, ConnLeftOpen, NotOpenNotRaised; scripts call close() at chosen instants and k loop iterations, "
            "idle 10 s, send (must raise), optional re-open with heal phase. API level: ClientImpl (TLA+ model of init/shutdown/handshake/heartbeat "
            "tasks) with shutdown() enabled in every state against ShutdownIsFinal and ClientContract (StateAfterShutdown, ShutdownRaised), its "
            "schedules replayed into the real client, shutdown during resets of stalled links.", "6 C15", SOCK_NOTE),
    "C16": ("SocketImpl with the queue bound scaled to 2 (only the length matters) against QueueBound and the contract clauses OverflowNotRaised, "
            "SpuriousOverflow, RejectedButSent, SpuriousNotOpen, NotAfterExpiry; scripts queue up to 14 messages with mixed lifetimes while "
            "down, cross expiries, then connect (also into connections that stall). Thorough: F_CAP sensitivity.", "6 C16", SOCK_NOTE),
}

WIRE_NOTE = ("The reference is the TLA+ wire layer (Crc16, Wire, AT4Msg, AT5Msg, WireMatch) transcribed from the vendor documents "
             "(timer/quick-timer layouts from the repository docstrings); TLC evaluates it on every case. Exhaustive per byte position, "
             "per field cross product and (thorough) per adjacent byte pair; sampled beyond. Nothing is proved about Python code.")

CHECKS.update({
    "C03": ("Every control/request object (enumerated descriptions) and every status-type object (what the real decoder makes of intact console "
            "payloads) is sent through the real send path; the written bytes are framed and read by the TLA+ wire layer (lengths, nested "
            "sub-header lengths, CRC, reading = submitted object) and fed back into the real receive path; TLC validates the recorded trace "
            "(delivered header/message = reference reading, nothing left over, no reset). Status-type objects are sent twice: as the real decoder "
            "makes them and as built from the TLA+ reference reading (Check_Read); a documented payload the decoder refuses is a violation.", "6 C03", WIRE_NOTE),
    "C05": ("The public decoders are run on payloads swept per byte position (256 values), per adjacent byte pair, over record counts 0..16, "
            "announced strides (zero and arbitrary tail bytes) and the cross product of documented codes; TLC judges every (payload, result) pair with "
            "Check_Decode: equal to the reference reading (or its sensor-gated variant), absent where the reference is not-available, or rejected - "
            "except the count/stride sweep of documented values, which must be decoded (DocumentedFrameRejected).", "6 C05", WIRE_NOTE),
    "C06": ("TLC checks the table lemma of Crc16 over all 65536 register values and the vendor anchors, judges calculate()/validate() on all 1- and "
            "2-byte strings (Check_Crc) and supplies the table for the fold over 3-byte strings; frames damaged by single/double-bit and burst "
            "errors are fed to the real socket and the traces validated against the contract (no delivery, reset, heal); frames on which the "
            "checksum register passes through 0000/FFFF at the header end or frame end are fed intact (must be delivered) and with the check bytes "
            "of a restarted computation (must not).", "6 C06", WIRE_NOTE),
    "C17": ("Frames of every unregistered type byte, unregistered 0x1F ids and 0xC0 sub-types and longer strides are fed on a live connection "
            "(strict: delivered as unsupported, no reset); random, mutated (recomputed CRC), truncated and wrong-length streams are fed and the "
            "traces validated: nothing misread, no unhandled exception, heal phase succeeds.", "6 C17", WIRE_NOTE + " " + SOCK_NOTE),
})

API_NOTE = ("Assumes the TLA+ client contract (ClientContract) and oracle (ApiModel, from the property texts, vendor documents and public "
            "docstrings) as the reading of the property, the TLA+ wire layer for what frames mean, CPython 3.12 asyncio on the virtual loop, "
            "TLC, and the harness executor (no oracle). Verdicts hold for the generated scenarios listed in the evidence.")

CHECKS.update({
    "C04": ("Public control calls over enum arguments, the 0.05 degC grid, dampers, AC/zone numbers and ability configurations are made on an initialised "
            "real client; TLC validates each recorded trace: exactly one frame, correct CRC/addresses (SocketContract), and its reference reading "
            "(AT4Msg/AT5Msg, lenient = as a console reads it) is one of the readings ApiModel!Expect allows (requested attribute set, all others keep).",
            "6 C04", API_NOTE),
    "C08": ("Heartbeat answer patterns (prompt, late by 10 s / 29.875 s / 30.25 s / 60 s, never) over 3..5 beats, silence from the first beat, after a "
            "response and after a reset, on both generations in virtual time; ClientContract judges beats at start + k*300 s while connected and resets "
            "exactly at the watchdog deadline chain (last response / start / previous expiry + 330 s), never otherwise; also in a second life of the "
            "same object and on links whose writes stall. TLC model-checks ClientImpl (heartbeat loop, watchdog, reader, link up/down, clock) against "
            "the same contract; thorough: F_WATCHDOG sensitivity.", "6 C08", API_NOTE),
    "C09": ("Initialisation scenarios over installations (1..4 ACs, 0..16 zones, partitions, AT4 old/new ability format, AT5 zero-zone echo), extras "
            "interleaved at every step, arbitrary segmentation, silence at step i, connect delays around 5 s; ClientContract judges request order, one "
            "at a time, init() outcome at the right time, and the snapshot against ApiModel (zones attached to the right AC). TLC model-checks "
            "ClientImpl (handshake state machine x init()/shutdown() x link x frames x clock) against the contract for both generations and its "
            "simulated schedules are replayed into the real client.", "6 C09", API_NOTE),
    "C10": ("Status/timer/error/version histories with a snapshot of every public attribute after every frame, including the full cross product of "
            "documented AC power x mode x fan x flag codes; TLC compares each snapshot with ApiModel!AcSnap/ZoneSnap of the latest reference readings.",
            "6 C10", API_NOTE),
    "C11": ("Calls over all 2^5 mode bitmaps x fan bitmaps, all enum members, temperatures on the 0.05 grid incl. ties and out-of-range, dampers -5..105, "
            "sensor present/absent, turbo support, reported timer pairs; ClientContract judges ValueError + nothing sent for inadmissible calls and exactly "
            "one frame with the rounded/clamped value (ApiModel!Expect) for admissible ones. TLC model-checks ClientImpl with control calls (refused / "
            "not-open / written / held 30 s for a down link) under link loss, shutdown and re-init; schedules with calls are replayed.", "6 C11", API_NOTE),
    "C12": ("Histories with subscribe/unsubscribe/double-subscribe placements, raising subscribers and unchanged repeats; per fed frame ClientContract "
            "derives who must be called (exposed attribute changed under every acceptable reading), who must not (identical report) and checks ids; "
            "a raising subscriber must not reduce the others' calls nor stop reception (strict mode); subscribers that (un)subscribe inside their "
            "callback, one callback holding both kinds of AC subscription and a second life of the object are included. TLC model-checks ClientImpl with "
            "subscribers (who hears which frame, objects rebuilt at re-init) against the contract; its schedules are replayed.", "6 C12", API_NOTE),
    "C14": ("Connection loss at random points after initialisation, console state changed meanwhile, outages 0..400 s, then reconnection: first frames "
            "= AC status and zone status requests, snapshot = console state, unchanged refresh = no callback; AT4 group-status gaps 100..1000 s: a poll "
            "exactly at each 300 s deadline, none earlier, also while AC status / version / timer frames keep arriving and in a second life of the "
            "object. TLC model-checks ClientImpl (link loss, refresh, AT4 poll) against the contract.", "6 C14", API_NOTE),
    "C18": ("discover() on simulated UDP with 0..3 datagrams per search (valid, duplicate, echo, malformed, invalid UTF-8, other generation) around the "
            "request instants, broadcast and unicast; DiscoveryContract judges request text/port/schedule, the stop rule, termination and the result set "
            "(= parsed valid datagrams, model, port). TLC model-checks DiscoveryImpl (two search tasks, endpoint creation, request loop, callback "
            "tasks; seven datagram kinds at every instant incl. exact ties) against the same contract and its schedules are replayed.", "6 C18", API_NOTE),
    "C19": ("The same abstract installation and history is rendered for both generations, both real clients are run, each trace is validated by "
            "Trace_Client and Check_Pair compares step by step: Common-projected snapshots equal, same accept/reject, AbstractCmd of the two frames equal.",
            "6 C19", API_NOTE),
})

TECH = "TLA+ spec (SocketImpl + SocketContract) model-checked by TLC; TLC-generated schedules replayed into the code; recorded traces validated by TLC (trace validation)"
TECH_API = ("TLA+ contract (ClientContract / DiscoveryContract monitor + ApiModel oracle); implementation-shaped TLA+ model (ClientImpl / DiscoveryImpl) "
            "model-checked by TLC against it; TLC-generated schedules replayed into the real client; recorded traces validated by TLC (trace validation)")


def main():
    checks = []
    for pid, (text, ref, note) in CHECKS.items():
        checks.append({
            "property_id": pid,
            "quick_cmd": f"/venv/bin/python checks/check.py {pid} --tier quick",
            "thorough_cmd": f"/venv/bin/python checks/check.py {pid} --tier thorough",
            "evidence_file": f"/verif/evidence/{pid}.json",
            "replay_cmd_template": f"/venv/bin/python checks/check.py {pid} --replay {{path}}",
            "engine": "tlc+harness",
            "level_claimed": {"category": "model_checking", "text": text, "design_ref": "DESIGN.md section " + ref},
            "level_note": note,
            "technique": (TECH if pid in ("C01", "C02", "C07", "C13", "C15", "C16") else
                          "TLA+ reference wire specification evaluated by TLC on recorded results of the real codecs / validated traces of the real socket"
                          if pid in ("C03", "C05", "C06", "C17") else
                          TECH_API if pid in ("C08", "C09", "C11", "C12", "C14", "C18") else
                          "TLA+ contract specification (monitor) + TLA+ oracle; traces recorded from the real client validated by TLC (trace validation)"),
        })
    claimed = set(CHECKS)
    allp = [json.loads(l)["id"] for l in open(os.path.join(ROOT, "properties.jsonl"))]
    na = [{"property_id": p, "reason": "check under construction in this round (specification modules exist; no registered command yet)"}
          for p in allp if p not in claimed]
    m = {
        "version": 1,
        "setup_cmd": "cd /verif && /venv/bin/python tools/setup_check.py",
        "hooks": {
            "guard": "PYAIRTOUCH_VERIF",
            "enable": "no hooks are needed: every observation is made through the public API and the simulated transport",
            "baseline_off_cmd": "cd /repo && /venv/bin/python -m pytest -q -p no:cacheprovider",
            "source_commits": [],
            "add_only": True,
        },
        "engines": [{"name": "tlc+harness", "path": "/verif/checks/check.py", "serves_properties": sorted(claimed),
                     "kind_free_text": "TLC 1.8 on the TLA+ modules in /verif/spec; deterministic virtual-time asyncio harness in /verif/harness"}],
        "checks": checks,
        "not_applicable": na,
        "notes": "known_findings.json lists repaired defects (fixed:) and recorded findings; DESIGN.md explains the approach.",
    }
    with open(os.path.join(ROOT, "MANIFEST.json"), "w") as f:
        json.dump(m, f, indent=1)
    print("MANIFEST.json written:", len(checks), "checks,", len(na), "not yet claimed")


if __name__ == "__main__":
    main()
