---- MODULE Totality ----
(* ReadMsg / SoftMsg must evaluate on ANY payload (gen_random.py): no index past Len(p), no type  *)
(* error.  ToString forces the complete value; SoftMsg is cross-checked against the value.        *)
EXTENDS AT4Msg, Json, IOUtils

Cases == JsonDeserialize(IOEnv.CASES)

HasNA(v) == LET s == ToString(v) IN ReplaceFirstSubSeq("", "\"NA\"", s) # s

Ok(c) ==
  LET r    == ReadMsg(c.type, c.payload)
      r2   == ReadMsgTo(176, c.type, c.payload)
      soft == SoftMsg(c.type, c.payload)
  IN /\ Len(ToString(r)) > 0
     /\ r = r2
     /\ soft = (r.k = "Undecodable" \/ HasNA(r) \/ (c.type = 42 /\ Undoc_GroupControl(c.payload)))

ASSUME LET bad == SelectSeq(Cases, LAMBDA c : ~Ok(c))
       IN PrintT(<<"totality", Len(Cases), "inconsistent", Len(bad), IF bad = <<>> THEN <<>> ELSE bad[1]>>)
====
