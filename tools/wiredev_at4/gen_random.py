"""Totality test input for spec/AT4Msg.tla: random payloads (length 0..80) for every header type.

usage: /venv/bin/python gen_random.py OUT.json [seed] [per-known-kind] [per-other-type]
No observation is attached: Totality.tla only requires that ReadMsg/SoftMsg evaluate.
"""
import json
import random
import sys

out = sys.argv[1]
rng = random.Random(int(sys.argv[2]) if len(sys.argv) > 2 else 7)
per_known = int(sys.argv[3]) if len(sys.argv) > 3 else 4000
per_other = int(sys.argv[4]) if len(sys.argv) > 4 else 40


def rb(n, style):
    if style == 0:
        return [rng.randrange(256) for _ in range(n)]
    if style == 1:   # small values: plausible lengths / counts / codes
        return [rng.choice([0, 1, 2, 3, 9, 22, 24, 26, 255, rng.randrange(256)]) for _ in range(n)]
    return [rng.choice([0, 255])] * n


cases = []
for t in range(256):
    known = t in (0x2A, 0x2B, 0x2C, 0x2D, 0x36, 0x37, 0x1F)
    for _ in range(per_known if known else per_other):
        cases.append({"type": t, "payload": rb(rng.randrange(0, 81), rng.randrange(3))})
for sub in (0xFF10, 0xFF11, 0xFF12, 0xFF20, 0xFF30):
    for _ in range(per_known):
        n = rng.randrange(0, 79)
        cases.append({"type": 0x1F, "payload": [sub >> 8, sub & 0xFF] + rb(n, rng.randrange(3))})
# every length 0..80 for every known kind, all-zero / all-0xff / counting bytes
for t in (0x2A, 0x2B, 0x2C, 0x2D, 0x36, 0x37, 0x1F):
    for n in range(81):
        for fill in ([0] * n, [255] * n, list(range(n)), [22] * n, [24] * n):
            cases.append({"type": t, "payload": fill})
            if t == 0x1F and n >= 2:
                for sub in (0xFF10, 0xFF11, 0xFF12, 0xFF20, 0xFF30):
                    cases.append({"type": t, "payload": [sub >> 8, sub & 0xFF] + fill[2:]})
json.dump(cases, open(out, "w"))
print(len(cases), "payloads", file=sys.stderr)
