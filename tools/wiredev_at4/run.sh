#!/bin/sh
# usage: run.sh [seed] [random-per-kind]   -- scratch under /tmp/wire_at4
set -e
S=/tmp/wire_at4
mkdir -p $S/meta $S/mod
/venv/bin/python /verif/tools/wiredev_at4/gen_cases.py $S/cases.json ${1:-1} ${2:-600} 2>&1 | tail -1
cp /verif/spec/AT4Msg.tla /verif/tools/wiredev_at4/DevCheck.tla /verif/tools/wiredev_at4/DevCheck.cfg $S/mod/
cd $S/mod
CASES=$S/cases.json OUT=$S/out.json tlc -workers 4 -metadir $S/meta -noGenerateSpecTE -config DevCheck.cfg DevCheck.tla 2>&1 \
  | grep -v "^Parsing\|^Semantic\|^Linting\|^$"
/venv/bin/python /verif/tools/wiredev_at4/classify.py $S/cases.json $S/out.json
# totality: random payloads of every length 0..80 for every type
/venv/bin/python /verif/tools/wiredev_at4/gen_random.py $S/rnd.json ${1:-1} 4000 40
cp /verif/tools/wiredev_at4/Totality.tla /verif/tools/wiredev_at4/Totality.cfg $S/mod/
CASES=$S/rnd.json tlc -workers 4 -metadir $S/meta -noGenerateSpecTE -config Totality.cfg Totality.tla 2>&1 | grep "^<<\|rror"
