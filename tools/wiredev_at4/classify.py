"""Group the mismatches of a DevCheck run by (source kind, message kind, differing paths)."""
import json
import sys
from collections import defaultdict

cases = json.load(open(sys.argv[1]))
out = json.load(open(sys.argv[2]))
show = int(sys.argv[3]) if len(sys.argv) > 3 else 2


def diff(a, b, path=""):
    """paths at which spec a and observation b differ (lists of records compared elementwise)."""
    if isinstance(a, dict) and isinstance(b, dict):
        res = []
        for k in sorted(set(a) | set(b)):
            if k not in a or k not in b:
                res.append(f"{path}.{k}(missing)")
            else:
                res += diff(a[k], b[k], f"{path}.{k}")
        return res
    if isinstance(a, list) and isinstance(b, list) and len(a) == len(b) and a and all(isinstance(x, (dict, list)) for x in a):
        res = []
        for x, y in zip(a, b):
            res += diff(x, y, path + "[]")
        return sorted(set(res))
    return [] if a == b else [path]


groups = defaultdict(list)
softbad = []
for c, o in zip(cases, out):
    if not o["softok"]:
        softbad.append(c)
    if o["v"] != "MISMATCH":
        continue
    spec, obs = o["spec"], c["obs"]
    if obs.get("k") == "Exception":
        sig = ("code raises " + obs["cls"], "spec " + spec.get("k", "?") + ("/" + spec["sub_message"]["k"] if "sub_message" in spec else ""))
    elif spec.get("k") == "Undecodable":
        sig = ("spec Undecodable: " + spec["why"], "code " + obs.get("k", "?") + ("/" + obs["sub_message"]["k"] if "sub_message" in obs else ""))
    else:
        sig = (spec.get("k", "?"), tuple(diff(spec, obs)))
    groups[(c["type"],) + sig].append((c, o))

for sig, lst in sorted(groups.items(), key=lambda kv: -len(kv[1])):
    print(f"== {len(lst):6d}  type=0x{sig[0]:02x}  {sig[1:]}")
    for c, o in lst[:show]:
        print("     payload", bytes(c["payload"]).hex(), "src", c["src"])
        print("       spec", json.dumps(o["spec"])[:400])
        print("       obs ", json.dumps(c["obs"])[:400])
if softbad:
    print("SOFT INCONSISTENT:", len(softbad), [bytes(c["payload"]).hex() for c in softbad[:5]])

# summary of the agreed rejections by exception class
rej = defaultdict(int)
for c, o in zip(cases, out):
    if o["v"] in ("reject", "softrej"):
        spec = o["spec"]
        kind = spec["why"] if spec["k"] == "Undecodable" else spec["k"] + ("/" + spec["sub_message"]["k"] if "sub_message" in spec else "")
        rej[(o["v"], c["type"], c["obs"]["cls"], kind)] += 1
print("-- rejections (verdict, type, exception class, spec reading): count")
for k, n in sorted(rej.items()):
    print(f"   {k[0]:8s} 0x{k[1]:02x} {k[2]:20s} {k[3]:60s} {n}")
# soft but delivered by the code
sd = defaultdict(int)
for c, o in zip(cases, out):
    if o["soft"] and c["obs"]["k"] != "Exception":
        sd[(c["type"], o["v"], o["spec"]["k"])] += 1
print("-- soft frames the code delivers:", dict(sd))
