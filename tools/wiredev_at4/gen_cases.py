"""Development aid for spec/AT4Msg.tla: build the JSON case file that DevCheck.tla compares.

Each case: {"type": t, "payload": [...], "src": tag, "obs": projection-or-exception} where obs is what
the repository's own decoder (registry.INSTANCE.get_decoder(t).decode + assert_complete, as
pyairtouch.comms.socket does) returns for the payload.  The spec is NOT derived from these; the
comparison only finds transcription slips and code-vs-document disagreements.

usage: /venv/bin/python gen_cases.py OUT.json [seed] [random-per-kind]
"""
import json
import random
import re
import sys

sys.dont_write_bytecode = True
sys.path[:0] = ["/verif", "/repo"]

from harness import project as P  # noqa: E402
from pyairtouch.at4.comms import registry  # noqa: E402
from pyairtouch.at4.comms.hdr import At4Header  # noqa: E402

KNOWN_TYPES = [0x2A, 0x2B, 0x2C, 0x2D, 0x36, 0x37, 0x1F]
SUBS = [0xFF10, 0xFF11, 0xFF12, 0xFF20, 0xFF30]


def observe(t, payload):
    payload = bytes(payload)
    hdr = At4Header(0xB0, 0x90 if t == 0x1F else 0x80, 1, t, len(payload))
    try:
        res = registry.INSTANCE.get_decoder(t).decode(payload, hdr)
        res.assert_complete()
        return P.project(res.message)
    except Exception as e:  # noqa: BLE001
        return {"k": "Exception", "cls": type(e).__name__, "msg": list(str(e).encode())[:0]}


CASES = []
SEEN = set()


def add(t, payload, src):
    payload = bytes(payload)
    key = (t, payload)
    if key in SEEN or len(payload) > 80:
        return
    SEEN.add(key)
    CASES.append({"type": t, "payload": list(payload), "src": src, "obs": observe(t, payload)})


def ext(sub, data=b""):
    return bytes([sub >> 8, sub & 0xFF]) + bytes(data)


# ------------------------------------------------------------------ A: repository test vectors
def repo_vectors():
    import pytest

    got = []

    class Plug:
        def pytest_collection_modifyitems(self, items):
            for it in items:
                cs = getattr(it, "callspec", None)
                if cs is None:
                    continue
                for name, v in cs.params.items():
                    if isinstance(v, (bytes, bytearray)):
                        got.append((it.module.__name__, bytes(v)))

    pytest.main(["--collect-only", "-q", "-p", "no:cacheprovider", "/repo/tests/at4/comms"], plugins=[Plug()])
    for mod, buf in got:
        m = re.search(r"test_x([0-9A-Fa-f]+)_", mod)
        if not m:
            continue
        code = int(m.group(1), 16)
        if code > 0xFF:
            add(0x1F, ext(code & 0xFFFF, buf), "vec")
        else:
            add(code, buf, "vec")


# ------------------------------------------------------------------ vendor document examples
DOC = [
    (0x2A, "01020000"), (0x2A, "00100000"), (0x2B, ""), (0x2B, "40640000ff0041e41a806180"),
    (0x2C, "81ff3f00"), (0x2C, "00403f00"), (0x2D, ""), (0x2D, "40421a0061800000" "01001a006180fffe"),
    (0x1F, "ff1100"), (0x1F, "ff11"),
    (0x1F, "ff110016" "554e4954000000000000000000000000" "0004171d111f0700"),   # as printed (len 0x16, 24 bytes)
    (0x1F, "ff110018" "554e4954000000000000000000000000" "0004171d111f0700"),   # length corrected
    (0x1F, "ff110016" "554e4954000000000000000000000000" "0004171d111f"),       # pre-1.2.3 form
    (0x1F, "ff1000"), (0x1F, "ff100008" "45523a2046464645"), (0x1F, "ff100000"),
    (0x1F, "ff1200"), (0x1F, "ff12"), (0x1F, "ff1200" "47726f7570310000"),
    (0x1F, "ff12" "004c6976696e670000" "014b69746368656e00" "02426564726f6f6d00"),
    (0x1F, "ff30"), (0x1F, "ff30000b" "312e332e337c312e332e33"),
]


def doc_examples():
    for t, h in DOC:
        add(t, bytes.fromhex(h), "doc")


# ------------------------------------------------------------------ B: every byte position through 0..255
def sweep(t, base, src, prefix=b""):
    base = bytes(base)
    for pos in range(len(base)):
        for v in range(256):
            b = bytearray(base)
            b[pos] = v
            add(t, prefix + bytes(b), src)


def systematic(rng):
    sweep(0x2A, bytes.fromhex("01a21500"), "sweep2A")
    sweep(0x2A, bytes.fromhex("0f9b6407"), "sweep2A")
    sweep(0x2B, bytes.fromhex("41e41a806180"), "sweep2B")
    sweep(0x2B, bytes.fromhex("40640000ff00"), "sweep2B")
    sweep(0x2B, bytes.fromhex("c3325f00ffe0" "41e41a806190"), "sweep2B")
    sweep(0x2C, bytes.fromhex("81ff3f00"), "sweep2C")
    sweep(0x2C, bytes.fromhex("c1425500"), "sweep2C")
    sweep(0x2D, bytes.fromhex("40421a0061800000"), "sweep2D")
    sweep(0x2D, bytes.fromhex("0100da00ff80fffe" "42961a5561800102"), "sweep2D")
    sweep(0x36, bytes.fromhex("8203840500000000"), "sweep36")
    sweep(0x37, bytes.fromhex("8203840500000000" "02030405aabbccdd"), "sweep37")
    sweep(0x1F, bytes.fromhex("ff100008" "45523a2046464645"), "sweepFF10")
    sweep(0x1F, bytes.fromhex("ff100000"), "sweepFF10")
    ab24 = bytes.fromhex("0018" "554e4954000000000000000000000000" "0004171d111f0700")
    ab22 = bytes.fromhex("0116" "4142434445464748494a4b4c4d4e4f50" "0402ffff1020")
    sweep(0x1F, ab24, "sweepFF11", prefix=ext(0xFF11))
    sweep(0x1F, ab22, "sweepFF11", prefix=ext(0xFF11))
    sweep(0x1F, ab22 + ab24, "sweepFF11", prefix=ext(0xFF11))
    sweep(0x1F, bytes.fromhex("004c6976696e670000" "014b69746368656e00"), "sweepFF12", prefix=ext(0xFF12))
    sweep(0x1F, bytes.fromhex("01010203"), "sweepFF20", prefix=ext(0xFF20))
    sweep(0x1F, bytes.fromhex("000b" "312e332e337c312e332e33"), "sweepFF30", prefix=ext(0xFF30))
    sweep(0x1F, bytes.fromhex("0100"), "sweepFF30", prefix=ext(0xFF30))
    # sub-id bytes themselves
    sweep(0x1F, bytes.fromhex("ff3000"), "sweepSub")
    # 16-bit pairs: temperature bytes 5/6 of 0x2B and 0x2D (sampled grid + all byte5 in {fe, ff})
    for b5 in list(range(0, 256, 5)) + [0xFE, 0xFF]:
        for b6 in range(0, 256, 3):
            add(0x2B, bytes([0x41, 0xE4, 0x1A, 0x80, b5, b6]), "pair2B")
            add(0x2B, bytes([0x41, 0xE4, 0x1A, 0x00, b5, b6]), "pair2B")
            add(0x2D, bytes([0x40, 0x42, 0x1A, 0x00, b5, b6, 0, 0]), "pair2D")
    # AC ability: following lengths 0..40 with exactly / fewer / more bytes present
    name = b"Abc" + bytes(13)
    for fl in range(0, 41):
        body = (name + bytes([2, 3, 0x1F, 0x7F, 16, 30, 0x05, 0x80]) + bytes(range(1, 40)))
        for present in {fl, fl - 1, fl + 1, 22, 24}:
            if present < 0:
                continue
            add(0x1F, ext(0xFF11, bytes([1, fl]) + body[:present]), "abilityFL")
            add(0x1F, ext(0xFF11, bytes([1, fl]) + body[:present] + ab24), "abilityFL")
    # group bitmap: every single bit, all, none
    for w in [0, 0xFFFF] + [1 << i for i in range(16)]:
        add(0x1F, ext(0xFF11, ab24[:-2] + bytes([w & 0xFF, w >> 8])), "abilityBits")
    # record counts
    for n in range(0, 14):
        add(0x2B, bytes.fromhex("41e41a806180") * n, "count")
        add(0x2D, bytes.fromhex("40421a0061800000") * min(n, 10), "count")
        add(0x37, bytes.fromhex("8203840500000000") * min(n, 10), "count")
        add(0x36, bytes.fromhex("8203840500000000") * min(n, 10), "count")
        add(0x1F, ext(0xFF12, b"".join(bytes([i]) + b"Zone%-4d" % i for i in range(min(n, 8)))), "count")
    # group names: duplicates, unsorted numbers, no terminator, empty names, non-UTF-8
    add(0x1F, ext(0xFF12, b"\x03AAAAAAAA" b"\x01BBBB\x00CCC" b"\x03\x00ZZZZZZZ"), "names")
    add(0x1F, ext(0xFF12, b"\x05" + "Küche".encode() + b"\x00\x00" + b"\x04\xff\xfe\x00\x00\x00\x00\x00\x00"), "names")
    # version strings
    for s in [b"", b"|", b"1.0|", b"|2", b"a|b|c", b"1.3.3", "ü|é".encode(), b"\xff|\x80"]:
        for extra in (0, 1, -1):
            add(0x1F, ext(0xFF30, bytes([0, max(0, len(s) + extra)]) + s), "version")
            add(0x1F, ext(0xFF30, bytes([7, max(0, len(s) + extra)]) + s), "version")
    # error info: announced length vs present
    for n in range(0, 12):
        for present in range(0, 12):
            add(0x1F, ext(0xFF10, bytes([2, n]) + b"ER: FFFE 123"[:present]), "errlen")
    # lengths of every kind, zeros and 0xff
    for t in KNOWN_TYPES:
        for n in range(0, 41):
            add(t, bytes(n), "len")
            add(t, b"\xff" * n, "len")
    for sub in SUBS + [0xFF13, 0x0000, 0xFFFF, 0x1234]:
        for n in range(0, 41):
            add(0x1F, ext(sub, bytes(n)), "len")
            add(0x1F, ext(sub, bytes([1]) * n), "len")


# ------------------------------------------------------------------ C: random payloads
def randoms(rng, per_kind):
    def rb(n):
        return bytes(rng.randrange(256) for _ in range(n))

    sizes = {0x2A: [4], 0x2B: [6, 12, 18], 0x2C: [4], 0x2D: [8, 16, 24], 0x36: [8, 32], 0x37: [8, 32]}
    for t, ns in sizes.items():
        for _ in range(per_kind):
            add(t, rb(rng.choice(ns)), "rnd")
        for _ in range(per_kind // 4):
            add(t, rb(rng.randrange(0, 81)), "rndlen")
    for _ in range(per_kind):
        # well-framed sub messages with random content
        add(0x1F, ext(0xFF20, rb(4)), "rnd")
        n = rng.randrange(0, 20)
        add(0x1F, ext(0xFF10, bytes([rng.randrange(4), n]) + bytes(rng.randrange(32, 127) for _ in range(n))), "rnd")
        n = rng.randrange(0, 20)
        add(0x1F, ext(0xFF30, bytes([rng.randrange(3), n]) + bytes(rng.choice(b"0123456789.|") for _ in range(n))), "rnd")
        add(0x1F, ext(0xFF12, b"".join(bytes([rng.randrange(16)]) + bytes(rng.choice(b"abcXYZ \x00") for _ in range(8))
                                       for _ in range(rng.randrange(1, 6)))), "rnd")
        recs = b""
        for _ in range(rng.randrange(1, 4)):
            fl = rng.choice([22, 22, 24, 24, 24, 23, 25, 26])
            recs += bytes([rng.randrange(4), fl]) + bytes(rng.choice(b"ACunit \x00") for _ in range(16)) + rb(fl - 16)
        add(0x1F, ext(0xFF11, recs), "rnd")
    for sub in SUBS:
        for _ in range(per_kind // 4):
            add(0x1F, ext(sub, rb(rng.randrange(0, 79))), "rndlen")
    for _ in range(per_kind):
        add(rng.randrange(256), rb(rng.randrange(0, 81)), "rndtype")
        add(0x1F, rb(rng.randrange(0, 81)), "rndsub")


def main():
    out = sys.argv[1]
    seed = int(sys.argv[2]) if len(sys.argv) > 2 else 1
    per_kind = int(sys.argv[3]) if len(sys.argv) > 3 else 600
    rng = random.Random(seed)
    doc_examples()
    repo_vectors()
    systematic(rng)
    randoms(rng, per_kind)
    with open(out, "w") as f:
        json.dump(CASES, f)
    kinds = {}
    for c in CASES:
        kinds[c["src"]] = kinds.get(c["src"], 0) + 1
    print(len(CASES), "cases", kinds, file=sys.stderr)


if __name__ == "__main__":
    main()
