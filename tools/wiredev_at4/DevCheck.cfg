
