---- MODULE DevCheck ----
(* Development aid for AT4Msg.tla (not part of the verification machinery).                      *)
(* Reads the cases written by gen_cases.py (path in environment variable CASES), evaluates       *)
(* ReadMsg/SoftMsg on every case and writes [i, v, soft, spec] records to the file named by      *)
(* environment variable OUT; classify.py groups the mismatches.                                  *)
(*   v = "match"     reading = observed projection (ToString comparison: TLC cannot compare      *)
(*                   values of different types with =)                                           *)
(*       "reject"    reading Undecodable and the code raised                                     *)
(*       "softrej"   reading contains NA (SoftMsg) and the code raised                           *)
(*       "MISMATCH"  anything else                                                               *)
(* Also checks DocExamples and that SoftMsg is exactly "Undecodable or contains NA or            *)
(* Undoc_GroupControl".                                                                          *)
EXTENDS AT4Msg, Json, IOUtils

Cases == JsonDeserialize(IOEnv.CASES)

HasNA(v) == LET s == ToString(v) IN ReplaceFirstSubSeq("", "\"NA\"", s) # s

Verdict(c) ==
  LET r    == ReadMsg(c.type, c.payload)
      soft == SoftMsg(c.type, c.payload)
      exc  == c.obs.k = "Exception"
      \* r = r: a freshly built record prints its fields in the order written; comparing it (even with
      \* itself) normalises it in place, deeply, to the order JSON-deserialised records print in.
      v    == IF r = r /\ ToString(r) = ToString(c.obs) THEN "match"
              ELSE IF exc /\ r.k = "Undecodable" THEN "reject"
              ELSE IF exc /\ soft THEN "softrej"
              ELSE "MISMATCH"
      softok == soft = (r.k = "Undecodable" \/ HasNA(r) \/ (c.type = 42 /\ Undoc_GroupControl(c.payload)))
  IN [v |-> v, soft |-> soft, softok |-> softok, spec |-> r]

Results == [i \in 1..Len(Cases) |-> Verdict(Cases[i])]

ASSUME PrintT(<<"DocExamples", DocExamples>>)
ASSUME LET res == Results
       IN /\ JsonSerialize(IOEnv.OUT, res)
          /\ PrintT(<<"cases", Len(res),
                      "match", Len(SelectSeq(res, LAMBDA x : x.v = "match")),
                      "reject", Len(SelectSeq(res, LAMBDA x : x.v = "reject")),
                      "softrej", Len(SelectSeq(res, LAMBDA x : x.v = "softrej")),
                      "MISMATCH", Len(SelectSeq(res, LAMBDA x : x.v = "MISMATCH")),
                      "softbad", Len(SelectSeq(res, LAMBDA x : ~x.softok))>>)
====
