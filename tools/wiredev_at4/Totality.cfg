
