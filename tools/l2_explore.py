#!/usr/bin/env python3
"""Exploratory deep runs of the SocketImpl model (not a registered check)."""
import json, sys, os
ROOT = os.path.dirname(os.path.dirname(os.path.abspath(__file__)))
sys.path.insert(0, ROOT)
from checks import p_l2 as L2
runs = [
    ("env6-bad-mixed", dict(MaxMsg=2, MaxEnv=6), "KindsBad", "PolMixed"),
    ("env6-subs", dict(MaxMsg=1, MaxEnv=6, ConnSubs="TRUE", MsgSubs="TRUE", MaxTask=12), "KindsOk", "PolIdem"),
    ("env7-subs", dict(MaxMsg=1, MaxEnv=7, ConnSubs="TRUE", MsgSubs="TRUE", MaxTask=13), "KindsOk", "PolIdem"),
    ("env7-bad-mixed", dict(MaxMsg=2, MaxEnv=7, MaxTask=12), "KindsBad", "PolMixed"),
]
for name, over, kinds, pols in runs:
    r = L2.model_check(over, kinds, pols, timeout=3000, heap="24g")
    r.pop("tail", None)
    print(name, json.dumps(r), flush=True)
