#!/usr/bin/env python3
"""Behaviour-preserving changes (/verif/benign/<id>/): refactorings written by sub-agents that were told to KEEP a
property while changing incidental details (private names, data structures, loop turns, number of write() calls,
order of independent callbacks ...).  Every check must stay silent on them.

  benign.py keep <worktree> <id> <property>    verify tests pass and the agent's demo passes with and without the change; store it
  benign.py run <id> [<check> ...]              apply the patch in a scratch worktree, run the checks (default: all 19, quick tier)
"""
import json
import os
import shutil
import subprocess
import sys
import time

ROOT = os.path.dirname(os.path.dirname(os.path.abspath(__file__)))
BEN = os.path.join(ROOT, "benign")
ALL = [f"C{i:02d}" for i in range(1, 20)]


def sh(cmd, cwd=None, env=None, timeout=3600):
    e = dict(os.environ)
    if env:
        e.update(env)
    p = subprocess.run(cmd, shell=True, cwd=cwd, env=e, stdout=subprocess.PIPE, stderr=subprocess.STDOUT, text=True, timeout=timeout)
    return p.returncode, p.stdout


def keep(wt, bid, prop):
    rc, diff = sh("git diff -- pyairtouch", cwd=wt)
    if not diff.strip():
        print("no change found")
        return 1
    open(os.path.join(wt, "patch.diff"), "w").write(diff)
    rc_t, o_t = sh(f"PYTHONPATH={wt} /venv/bin/python -m pytest -q -p no:cacheprovider tests", cwd=wt)
    rc1, _ = sh(f"PYTHONPATH={wt} /venv/bin/python demo.py", cwd=wt, timeout=600)
    sh("git apply -R patch.diff", cwd=wt)
    rc0, _ = sh(f"PYTHONPATH={wt} /venv/bin/python demo.py", cwd=wt, timeout=600)
    sh("git apply patch.diff", cwd=wt)
    ok = rc_t == 0 and rc1 == 0 and rc0 == 0
    print(bid, "tests", rc_t, "demo with", rc1, "demo without", rc0, "->", "kept" if ok else "NOT KEPT")
    if not ok:
        return 1
    d = os.path.join(BEN, bid)
    os.makedirs(d, exist_ok=True)
    for f in ("patch.diff", "NOTES.md", "demo.py"):
        if os.path.exists(os.path.join(wt, f)):
            shutil.copy(os.path.join(wt, f), os.path.join(d, f))
    json.dump({"id": bid, "keeps_property": prop, "existing_tests_with_change": o_t.strip().splitlines()[-1] if o_t.strip() else "",
               "lines_changed": sum(1 for ln in diff.splitlines() if ln[:1] in "+-" and ln[:3] not in ("+++", "---")), "checks": {}},
              open(os.path.join(d, "meta.json"), "w"), indent=1)
    return 0


def run(bid, checks):
    d = os.path.join(BEN, bid)
    meta = json.load(open(os.path.join(d, "meta.json")))
    tree = "/tmp/verif_benign_wt_" + bid
    sh(f"git -C /repo worktree remove --force {tree}")
    sh("git -C /repo worktree prune")
    rc, o = sh(f"git -C /repo worktree add -q --detach {tree} HEAD")
    rc, o = sh(f"git apply {os.path.join(d, 'patch.diff')}", cwd=tree)
    if rc != 0:
        print("patch does not apply:", o)
        return 2
    env = {"VERIF_REPO": tree, "VERIF_EVIDENCE_DIR": "/tmp/verif_benign_evidence_" + bid}
    try:
        for c in checks or ALL:
            t0 = time.time()
            rc, o = sh(f"/venv/bin/python checks/check.py {c} --tier quick", cwd=ROOT, env=env)
            lines = [ln for ln in o.splitlines() if ln.startswith(("VIOLATION", "MACHINERY"))]
            meta["checks"][c] = {"exit": rc, "alarms": lines[:5], "wall_s": round(time.time() - t0, 1)}
            print(bid, c, "exit", rc, lines[:2])
    finally:
        sh(f"git -C /repo worktree remove --force {tree}")
        sh("rm -rf /tmp/verif_benign_evidence_" + bid)
    json.dump(meta, open(os.path.join(d, "meta.json"), "w"), indent=1)
    return 0


if __name__ == "__main__":
    if sys.argv[1] == "keep":
        sys.exit(keep(sys.argv[2], sys.argv[3], sys.argv[4]))
    if sys.argv[1] == "run":
        sys.exit(run(sys.argv[2], sys.argv[3:]))
