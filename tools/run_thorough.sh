#!/bin/sh
# runs the thorough tier of the given checks one after the other (exploratory; evidence of record is produced in /verif itself)
for p in "$@"; do
  echo "=== $p $(date +%T)"
  /usr/bin/time -f "%e s" /venv/bin/python checks/check.py $p --tier thorough 2>&1 | tail -4 | cut -c1-300
done
