"""Regenerates the seeded-changes table of DESIGN.md 11.6 (between the seeded-table markers) from seeded/*/meta.json."""
import subprocess,re,sys
d=open('/verif/DESIGN.md').read()
tab=subprocess.run(['/venv/bin/python','tools/seeded.py','table'],cwd='/verif',capture_output=True,text=True).stdout
tab='\n'.join(l for l in tab.splitlines() if l.startswith('|'))+'\n'
d=re.sub(r'(<!-- seeded-table-begin -->\n).*?(<!-- seeded-table-end -->)',lambda m:m.group(1)+tab+m.group(2),d,flags=re.S)
n=tab.count('\n')-2
d=re.sub(r'\(11\.6: \d+ of them\)',f'(11.6: {n} of them)',d)
open('/verif/DESIGN.md','w').write(d)
print(n)
