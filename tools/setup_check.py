#!/usr/bin/env python3
"""setup_cmd: nothing to build; parse every TLA+ module with SANY and import the harness."""
import glob
import os
import subprocess
import sys

ROOT = os.path.dirname(os.path.dirname(os.path.abspath(__file__)))
bad = 0
for m in sorted(glob.glob(os.path.join(ROOT, "spec", "*.tla"))):
    p = subprocess.run(["tla-sany", os.path.basename(m)], cwd=os.path.join(ROOT, "spec"), stdout=subprocess.PIPE,
                       stderr=subprocess.STDOUT, text=True)
    if "*** Errors" in p.stdout or "Fatal" in p.stdout or p.returncode != 0:
        print("SANY failed for", m)
        print(p.stdout[-1500:])
        bad += 1
sys.path.insert(0, ROOT)
sys.path.insert(0, "/repo")
import harness.executor  # noqa: E402,F401
print("setup ok" if not bad else f"{bad} modules failed")
sys.exit(1 if bad else 0)
