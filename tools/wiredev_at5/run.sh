#!/bin/sh
# Dev aid: generate cases, evaluate the spec with TLC, classify differences.  Scratch in $W
# (AT5Msg.tla and Dev.tla are copied there so that TLC finds both in one directory).
W=${W:-/tmp/wire_at5}
mkdir -p "$W/meta"
D=$(dirname "$(readlink -f "$0")")
[ -n "$NOGEN" ] || /venv/bin/python "$D/gen_cases.py" "$W/cases.json" "${SEED:-5}" || exit 1
cp /verif/spec/AT5Msg.tla "$D/Dev.tla" "$D/Dev.cfg" "$W/" || exit 1
cd "$W" && CASES="$W/cases.json" OUT="$W/out.json" \
  tlc -workers 4 -metadir "$W/meta/dev" -noGenerateSpecTE -config Dev.cfg Dev.tla > "$W/tlc.log" 2>&1
grep -n "Error\|error\|\"cases\"" "$W/tlc.log" | head -20
/venv/bin/python "$D/compare.py" "$W/cases.json" "$W/out.json" "$@"
