-------------------------------- MODULE Dev --------------------------------
(* Dev aid: evaluate AT5Msg!ReadMsg / SoftMsg on every case of IOEnv.CASES (JSON, see        *)
(* gen_cases.py) and write [i, spec, soft, same] per case to IOEnv.OUT (JSON) for compare.py. *)
(* `same` is the ToString comparison against the observation of the repo's decoder; Norm      *)
(* forces deep normalisation first (TLC prints a freshly built record in construction order,  *)
(* a JSON-deserialised one in normal order).                                                  *)
EXTENDS AT5Msg, Json, IOUtils, TLCExt
Cases == JsonDeserialize(IOEnv.CASES)
Norm(v) == IF TLCFP(v) = 0 THEN v ELSE v
Out == [i \in 1..Len(Cases) |->
          LET c == Cases[i]
              r == ReadMsgTo(0, c.type, c.payload)
          IN [i |-> i, spec |-> r, soft |-> SoftMsg(c.type, c.payload),
              same |-> ToString(Norm(r)) = ToString(Norm(c.obs))]]
ASSUME JsonSerialize(IOEnv.OUT, Out)
ASSUME PrintT(<<"cases", Len(Cases)>>)
=============================================================================
