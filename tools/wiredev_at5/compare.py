"""Dev aid: classify the differences between spec readings (Dev.tla output) and observations.

usage: compare.py CASES.json OUT.json [-v RULE_SUBSTRING]
Every difference between the spec reading and the repo decoder's observation ("obs") resp. the
repo test's expected message ("exp") is assigned to a named rule (see WIRE_NOTES_at5.md); what
no rule explains is printed as UNEXPLAINED.  Also checks SoftMsg == (Undecodable or has "NA").
"""
import collections
import json
import sys

cases = json.load(open(sys.argv[1]))
out = json.load(open(sys.argv[2]))
verbose = sys.argv[4] if len(sys.argv) > 4 and sys.argv[3] == "-v" else None
assert len(cases) == len(out), (len(cases), len(out))


def has_na(v):
    if v == "NA":
        return True
    if isinstance(v, dict):
        return any(has_na(x) for x in v.values())
    if isinstance(v, list):
        return any(has_na(x) for x in v)
    return False


def diff(a, b, path=""):
    """paths where spec a and observation b differ"""
    if isinstance(a, dict) and isinstance(b, dict):
        if a.get("k") != b.get("k"):
            return [f"{path}:{a.get('k')}!={b.get('k')}"]
        d = []
        for key in sorted(set(a) | set(b)):
            if key not in a or key not in b:
                d.append(f"{path}.{key}:missing")
            else:
                d += diff(a[key], b[key], f"{path}.{key}")
        return d
    if isinstance(a, list) and isinstance(b, list):
        if len(a) != len(b):
            return [f"{path}:len"]
        d = []
        for x, y in zip(a, b):
            d += diff(x, y, path + "[]")
        return d
    if a != b or type(a) is not type(b):
        return [f"{path}:{'NA' if a == 'NA' else 'val'}"]
    return []


FIELD_RULES = {
    ".sub_message.zone_control[].zone_number:val": "N01 zone control: zone index not masked to Bit6-1",
    ".sub_message.zone_control[].zone_setting:len": "N02 zone control: out-of-range value byte not ignored",
    ".sub_message.zones[].temperature:len": "N03 zone status: temperature dropped when sensor bit is 0",
    ".sub_message.ac_status[].set_point:NA": "N04 AC status: set-point 251..255 read as a temperature",
    ".sub_message.ac_status[].temperature:NA": "N05 AC status: temperature 2001..2047 read as a temperature",
}


def classify(c, spec, other):
    """name of the rule that explains spec != other, or UNEXPLAINED"""
    t, p = c["type"], c["payload"]
    sk = spec.get("k")
    raises = other.get("exc") if other.get("k") == "Raises" else None
    c0 = t == 0xC0 and len(p) >= 8
    if c0:
        sub, nl, rl, rc = p[0], p[2] * 256 + p[3], p[4] * 256 + p[5], p[6] * 256 + p[7]
    if sk == "Undecodable":
        if raises == "DecodeError":
            return "OK  both reject (DecodeError)"
        if raises:
            return f"N20 both reject, but the code raises {raises} (not DecodeError: escapes the socket reader)"
        why = spec["why"]
        if why == "ControlStatus lengths":
            return "N06 0xC0: sub-header lengths do not add up to the bytes present, code delivers"
        if why in ("ZoneControl repeat length", "AcControl repeat length"):
            return "N07 0xC0 control: announced repeat length < 4, code reads fixed 4-byte records and delivers"
        if why == "AcAbility following data length":
            return "N10 ability: announced following length ignored (fixed 26-byte stride)"
        if why in ("AcErrorInformation length", "ConsoleVersion length"):
            return "N11 error info / version: length byte exceeds the bytes present, code delivers"
        return "UNEXPLAINED"
    if raises:
        if has_na(spec) and raises == "ValueError":
            return "N12 undocumented code: spec NA, code raises ValueError (not DecodeError)"
        if raises == "UnicodeDecodeError":
            return "N13 text that is not UTF-8: spec gives the raw bytes, code raises UnicodeDecodeError"
        if c0 and nl > 0:
            return f"N08 0xC0: normal data length > 0 not skipped by the code ({raises})"
        if c0 and sub in (0x20, 0x22) and rl > 4 and raises == "DecodeError":
            return "N09 0xC0 control: announced repeat length > 4 not honoured (fixed 4-byte stride)"
        if t == 0x1F and p[:2] == [0xFF, 0x11] and raises == "DecodeError":
            return "N10 ability: announced following length ignored (fixed 26-byte stride)"
        return "UNEXPLAINED"
    d = sorted(set(diff(spec, other)))
    if c0 and nl > 0:
        return "N08 0xC0: normal data length > 0 not skipped by the code (misread)"
    if t == 0x1F and p[:2] == [0xFF, 0x11] and any(p[i] != 24 for i in ability_len_positions(p)):
        return "N10 ability: announced following length ignored (fixed 26-byte stride)"
    names = [FIELD_RULES.get(x) for x in d]
    if all(names):
        return " + ".join(sorted(set(names)))
    return "UNEXPLAINED"


def ability_len_positions(p):
    """indices (in p) of the following-length bytes when walking by announced length"""
    pos, o = [], 2
    while o + 1 < len(p):
        pos.append(o + 1)
        o += 2 + p[o + 1]
    return pos


ARTEFACTS = {}
groups = collections.defaultdict(list)
n_same = n_soft_bad = n_cmp = 0
for c, o in zip(cases, out):
    spec, obs = o["spec"], c["obs"]
    want_soft = spec.get("k") == "Undecodable" or has_na(spec)
    if o["soft"] != want_soft:
        n_soft_bad += 1
        print("SOFT MISMATCH", c["type"], bytes(c["payload"]).hex(" "), spec, o["soft"])
    if o["same"] != (not diff(spec, obs)):
        print("ToString and JSON comparison disagree", c["type"], bytes(c["payload"]).hex(" "))
    for label, other in (("obs", obs), ("exp", c.get("exp"))):
        if other is None:
            continue
        n_cmp += 1
        if not diff(spec, other):
            n_same += 1
            continue
        groups[(label, classify(c, spec, other))].append((c, spec, other))

print(f"{len(cases)} cases, {n_cmp} comparisons: {n_same} equal, {n_cmp - n_same} differ "
      f"in {len(groups)} rules; SoftMsg errors: {n_soft_bad}")
for sig, items in sorted(groups.items(), key=lambda kv: (kv[0][1][:3] != "UNE", kv[0][1], kv[0][0])):
    print(f"\n[{len(items):6d}] {sig[0]}: {sig[1]}")
    shown = items[:40] if verbose and verbose in sig[1] else items[:1]
    if sig[1].startswith("UNEXPLAINED"):
        shown = items[:25]
    for c, spec, other in shown:
        print(f"   type {c['type']:#04x} payload {bytes(c['payload']).hex(' ')}   ({c['src']})")
        print(f"     spec: {json.dumps(spec)[:600]}")
        print(f"     code: {json.dumps(other)[:600]}")
