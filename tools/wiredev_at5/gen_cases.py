"""Dev aid for spec/AT5Msg.tla: build the case file compared by Dev.tla.

Each case: {"type": t, "payload": [...], "obs": projection of what the repo's decoder returns
(or {"k": "Raises", "exc": name}), "src": label}.  Test-vector cases additionally carry "exp":
the projection of the message the repo's test expects for those bytes.
usage: gen_cases.py OUT.json [seed]
"""
import importlib
import json
import random
import struct
import sys

sys.path[:0] = ["/verif", "/repo", "/repo/tests"]
from harness import project as P  # noqa: E402
from pyairtouch import comms  # noqa: E402
from pyairtouch.at5.comms import hdr, registry  # noqa: E402

C0, X1F = 0xC0, 0x1F
cases = []


def observe(t, payload):
    h = hdr.At5Header(0xB0, 0x80, 1, t, len(payload))
    try:
        res = registry.INSTANCE.get_decoder(t).decode(bytes(payload), h)
        res.assert_complete()
        return P.project(res.message)
    except Exception as e:  # noqa: BLE001
        return {"k": "Raises", "exc": type(e).__name__}


def add(t, payload, src, exp=None):
    payload = list(payload)
    c = {"type": t, "payload": payload, "obs": observe(t, payload), "src": src}
    if exp is not None:
        c["exp"] = exp
    cases.append(c)


def c0(sub, nl, rl, rc, data, keep=0):
    return bytes([sub, keep]) + struct.pack("!HHH", nl, rl, rc) + bytes(data)


def ext(subid, data):
    return struct.pack("!H", subid) + bytes(data)


# ---------------------------------------------------------------- repo test vectors
def floats(obj):
    """the tests write some float fields as int literals (set_point=23): make them floats"""
    import dataclasses
    if dataclasses.is_dataclass(obj) and not isinstance(obj, type):
        h = P.hints(type(obj))
        for f in dataclasses.fields(obj):
            v = getattr(obj, f.name)
            if isinstance(v, int) and not isinstance(v, bool) and "float" in str(h.get(f.name)):
                setattr(obj, f.name, float(v))
            else:
                floats(v)
    elif isinstance(obj, (list, tuple)):
        for v in obj:
            floats(v)
    return obj


def vectors():
    import pytest  # noqa: F401
    from pyairtouch.at5.comms import x1F_ext, xC0_ctrl_status
    for name, kind in [("test_xC020_zone_ctrl", "c0"), ("test_xC021_zone_status", "c0"),
                       ("test_xC022_ac_ctrl", "c0"), ("test_xC023_ac_status", "c0"),
                       ("test_xC032_ac_timer_ctrl", "c0"), ("test_xC033_ac_timer_status", "c0"),
                       ("test_x1FFF49_quick_timer", "ext")]:
        mod = importlib.import_module(f"at5.comms.{name}")
        seen = set()
        for obj in vars(mod).values():
            # class-level marks and marks on test_decoder (encoder-only vectors are not readings)
            holders = [obj] + [getattr(obj, a) for a in dir(obj) if a.startswith("test_dec")] \
                if isinstance(obj, type) else []
            for hld in holders:
                for mark in getattr(hld, "pytestmark", []):
                    if mark.name != "parametrize":
                        continue
                    names = mark.kwargs.get("argnames") or mark.args[0]
                    values = mark.kwargs.get("argvalues") or mark.args[1]
                    for v in values:
                        d = dict(zip(names, v))
                        msg, buf = floats(d["message"]), bytes(d["message_buffer"])
                        if kind == "c0":
                            hd = mod.generate_header(msg)
                            rl = d.get("repeat_length", hd.repeat_length)
                            pay = c0(mod.MESSAGE_ID, hd.non_repeat_length, rl, hd.repeat_count, buf)
                            exp = P.project(xC0_ctrl_status.ControlStatusMessage(msg))
                            t = C0
                        else:
                            pay = ext(mod.MESSAGE_ID, buf)
                            exp = P.project(x1F_ext.ExtendedMessage(msg))
                            t = X1F
                        key = (t, pay, json.dumps(exp, sort_keys=True))
                        if key in seen:
                            continue
                        seen.add(key)
                        add(t, pay, f"vector:{name}", exp)


# ---------------------------------------------------------------- vendor document examples
def doc_examples():
    h = bytes.fromhex
    add(C0, h("20 00 00 00 00 04 00 01 01 02 FF 00"), "doc:4.a.i turn off second zone")
    add(C0, h("21 00 00 00 00 00 00 00"), "doc:4.a.ii request")
    add(C0, h("21 00 00 00 00 08 00 02 40 80 96 80 02 E7 00 00 01 64 FF 00 07 FF 00 00"),
        "doc:4.a.ii two zones")
    add(C0, h("22 00 00 00 00 04 00 01 21 FF 00 FF"), "doc:4.a.iii turn off second AC")
    add(C0, h("22 00 00 00 00 04 00 02 00 4F 00 FF 01 FF 40 A0"), "doc:4.a.iii cool / 26 degree")
    add(C0, h("23 00 00 00 00 00 00 00"), "doc:4.a.iv request")
    add(C0, h("23 00 00 00 00 0A 00 02 10 12 78 C0 02 DA 00 00 80 00 01 42 64 C0 02 E4 00 00 80 00"),
        "doc:4.a.iv two ACs")
    add(X1F, h("FF 11 00"), "doc:4.b.i request AC 0")
    add(X1F, h("FF 11"), "doc:4.b.i request all")
    add(X1F, h("FF 11 00 18 55 4E 49 54 00 00 00 00 00 00 00 00 00 00 00 00 00 04 17 1D 10 1F 12 1F"),
        "doc:4.b.i ability")
    add(X1F, h("FF 10 00"), "doc:4.b.ii request")
    add(X1F, h("FF 10 00 08 45 52 3A 20 46 46 46 45"), "doc:4.b.ii error info")
    add(X1F, h("FF 13 00"), "doc:4.b.iii request zone 0")
    add(X1F, h("FF 13"), "doc:4.b.iii request all")
    add(X1F, h("FF 13 00 06 4C 69 76 69 6E 67"), "doc:4.b.iii one name")
    add(X1F, h("FF 13 00 06 4C 69 76 69 6E 67 01 07 4B 69 74 63 68 65 6E 02 07 42 65 64 72 6F 6F 6D"),
        "doc:4.b.iii three names")
    add(X1F, h("FF 30"), "doc:4.b.iv request")
    add(X1F, h("FF 30 00 0B 31 2E 30 2E 33 2C 31 2E 30 2E 33"), "doc:4.b.iv versions")


# ---------------------------------------------------------------- enumerations
BASE = {
    0x20: (4, bytes([0x01, 0x02, 0xFF, 0x00])),
    0x21: (8, bytes([0x40, 0x80, 0x96, 0x80, 0x02, 0xE7, 0x00, 0x00])),
    0x22: (4, bytes([0x01, 0xFF, 0x40, 0xA0])),
    0x23: (10, bytes([0x10, 0x12, 0x78, 0xC0, 0x02, 0xDA, 0x00, 0x00, 0x80, 0x00])),
    0x32: (9, bytes([0x01, 0x82, 0x03, 0x04, 0x05, 0, 0, 0, 0])),
    0x33: (9, bytes([0x01, 0x82, 0x03, 0x04, 0x05, 0, 0, 0, 0])),
}


def enum_records():
    for sub, (n, base) in BASE.items():
        # every value of every byte position, one record
        for pos in range(n):
            for v in range(256):
                rec = bytearray(base)
                rec[pos] = v
                add(C0, c0(sub, 0, n, 1, rec), f"enum:{sub:02x} byte{pos + 1}")
        # second record varied too (stride)
        for v in range(0, 256, 5):
            rec = bytearray(base)
            rec[0] = v
            add(C0, c0(sub, 0, n, 2, base + rec), f"enum:{sub:02x} two records")
    # zone control: every (byte2, byte3) pair on a coarse grid + fine near the limits
    vals = sorted(set(list(range(0, 256, 7)) + [99, 100, 101, 249, 250, 251, 254, 255]))
    for b2 in range(256):
        for b3 in vals:
            add(C0, c0(0x20, 0, 4, 1, [3, b2, b3, 0]), "enum:20 byte2 x byte3")
    # zone / AC status: every 11-bit temperature, with and without sensor bit
    for raw in range(2048):
        for b4 in (0x80, 0x00):
            add(C0, c0(0x21, 0, 8, 1, [0x41, 0x80, 0x96, b4, raw >> 8, raw & 0xFF, 0, 0]),
                "enum:21 temperature")
        add(C0, c0(0x23, 0, 8, 1, [0x10, 0x12, 0x78, 0xC0, raw >> 8, raw & 0xFF, 0, 0]),
            "enum:23 temperature")
    for hi in range(256):  # NOT USED bits of byte5
        add(C0, c0(0x21, 0, 8, 1, [0x41, 0x80, 0x96, 0x80, hi, 0xE7, 0, 0]), "enum:21 byte5")
    # AC control: byte3 x byte4
    for b3 in range(256):
        for b4 in (0, 1, 100, 160, 250, 251, 255):
            add(C0, c0(0x22, 0, 4, 1, [0x01, 0xFF, b3, b4]), "enum:22 byte3 x byte4")
    # error code 16 bit
    for e in list(range(0, 65536, 257)) + [1, 255, 256, 65535]:
        add(C0, c0(0x23, 0, 8, 1, [0x10, 0x12, 0x78, 0xC0, 0x02, 0xDA, e >> 8, e & 0xFF]),
            "enum:23 error code")


def enum_subheader(rng):
    for sub in list(BASE) + [0x24, 0x00, 0xFF]:
        n, base = BASE.get(sub, (4, bytes(4)))
        for nl in (0, 1, 3):
            for rl in range(0, 14):
                for rc in range(0, 4):
                    body = bytes(rng.randrange(256) for _ in range(nl)) + \
                        b"".join((base + bytes(16))[:rl] for _ in range(rc))
                    add(C0, c0(sub, nl, rl, rc, body), f"hdr:{sub:02x} consistent")
                    if body:
                        add(C0, c0(sub, nl, rl, rc, body[:-1]), f"hdr:{sub:02x} short")
                    add(C0, c0(sub, nl, rl, rc, body + b"\x00"), f"hdr:{sub:02x} long")
        add(C0, c0(sub, 0, 0, 5, b""), f"hdr:{sub:02x} rl0 rc5")
        add(C0, c0(sub, 0, 0xFFFF, 0xFFFF, b""), f"hdr:{sub:02x} huge")
        add(C0, c0(sub, 0, n, 1, base, keep=0x55), f"hdr:{sub:02x} byte2 nonzero")
        add(C0, c0(sub, 0xFFFF, 0, 0, b""), f"hdr:{sub:02x} huge nl")
    for ln in range(0, 8):
        add(C0, bytes([0x21] + [0] * 7)[:ln], "hdr:truncated sub-header")
    for sub in range(256):
        add(C0, c0(sub, 0, 0, 0, b""), "hdr:every sub type empty")
        add(C0, c0(sub, 0, 10, 1, BASE[0x23][1]), "hdr:every sub type one 10-byte record")


def enum_ext(rng):
    name16 = b"UNIT" + bytes(12)
    tail = bytes([0, 4, 0x17, 0x1D, 16, 31, 18, 31])
    rec = bytes([0, 24]) + name16 + tail
    # ability: every byte value at every position of the known layout
    for pos in range(26):
        for v in (range(256) if pos not in range(2, 18) else (0, 1, 65, 127, 128, 200, 255)):
            r = bytearray(rec)
            r[pos] = v
            add(X1F, ext(0xFF11, r), f"ext:ff11 byte{pos + 3}")
    for L in range(0, 40):
        body = bytes([1, L]) + (name16 + tail + bytes(40))[:L]
        add(X1F, ext(0xFF11, body), "ext:ff11 following length")
        add(X1F, ext(0xFF11, body + rec), "ext:ff11 following length then 24")
        add(X1F, ext(0xFF11, rec + body), "ext:ff11 24 then following length")
    add(X1F, ext(0xFF11, rec + rec[:-1]), "ext:ff11 short second")
    add(X1F, ext(0xFF11, rec + rec + rec), "ext:ff11 three")
    add(X1F, ext(0xFF11, bytes([2, 24]) + b"ABCDEFGHIJKLMNOP" + tail), "ext:ff11 full name")
    add(X1F, ext(0xFF11, bytes([2, 24]) + b"AB\x00DEFGHIJKLMNOP" + tail), "ext:ff11 name nul inside")
    add(X1F, ext(0xFF11, bytes([2, 24]) + b"\x00BCDEFGHIJKLMNOP" + tail), "ext:ff11 name nul first")
    add(X1F, ext(0xFF11, bytes([2, 24]) + "Café".encode() + bytes(11) + tail), "ext:ff11 utf8 name")
    for n in range(0, 3):
        for v in (0, 1, 15, 16, 255):
            add(X1F, ext(0xFF11, [v] * n), "ext:ff11 request forms")
            add(X1F, ext(0xFF13, [v] * n), "ext:ff13 request forms")
            add(X1F, ext(0xFF10, [v] * n), "ext:ff10 request forms")
            add(X1F, ext(0xFF30, [v] * n), "ext:ff30 request forms")
    # error info / version: length byte vs bytes present
    txt = b"ER: FFFE"
    for L in range(0, 12):
        add(X1F, ext(0xFF10, bytes([0, L]) + txt), "ext:ff10 length byte")
        add(X1F, ext(0xFF30, bytes([0, L]) + b"1.0.3,1."), "ext:ff30 length byte")
    for v in range(256):
        add(X1F, ext(0xFF10, bytes([v, 2, 65, 66])), "ext:ff10 ac byte")
        add(X1F, ext(0xFF30, bytes([v, 3]) + b"1.0"), "ext:ff30 update sign")
        add(X1F, ext(0xFF10, bytes([0, 1, v])), "ext:ff10 text byte")
    for s in (b"", b",", b",,", b"1.0.3", b"1.0.3,", b",1.0.3", b"1,2,3", b"a|b", b"1.0.3,1.0.4"):
        add(X1F, ext(0xFF30, bytes([1, len(s)]) + s), "ext:ff30 split")
    # zone names
    nm = lambda z, s: bytes([z, len(s)]) + s  # noqa: E731
    add(X1F, ext(0xFF13, nm(2, b"Bed") + nm(0, b"Living") + nm(1, b"")), "ext:ff13 unsorted")
    add(X1F, ext(0xFF13, nm(2, b"Bed") + nm(2, b"Other")), "ext:ff13 duplicate")
    add(X1F, ext(0xFF13, nm(2, b"Bed") + nm(1, b"X") + nm(2, b"A")), "ext:ff13 duplicate 2")
    add(X1F, ext(0xFF13, nm(0, b"")), "ext:ff13 empty name")
    add(X1F, ext(0xFF13, nm(0, b"A") + b"\x01"), "ext:ff13 dangling byte")
    add(X1F, ext(0xFF13, nm(0, b"A") + b"\x01\x05abc"), "ext:ff13 name too long")
    add(X1F, ext(0xFF13, nm(0, b"A\x00B")), "ext:ff13 nul inside")
    for v in range(256):
        add(X1F, ext(0xFF13, bytes([v, 1, 65])), "ext:ff13 zone byte")
        add(X1F, ext(0xFF13, bytes([0, v]) + b"ab"), "ext:ff13 length byte")
    # quick timer
    for pos in range(4):
        for v in range(256):
            r = bytearray([1, 1, 2, 3])
            r[pos] = v
            add(X1F, ext(0xFF49, r), f"ext:ff49 byte{pos + 3}")
    for n in range(0, 7):
        add(X1F, ext(0xFF49, [1, 0, 2, 3, 0, 0][:n]), "ext:ff49 length")
    add(X1F, ext(0xFF49, [1, 1, 255, 255]), "ext:ff49 max")
    # unknown ids, truncated id
    for sid in (0x0000, 0xFF12, 0xFF31, 0xFFFF, 0x1234):
        add(X1F, ext(sid, b""), "ext:unknown id")
        add(X1F, ext(sid, b"\x01\x02\x03"), "ext:unknown id")
    add(X1F, b"", "ext:empty")
    add(X1F, b"\xff", "ext:one byte")


def others(rng):
    for t in range(256):
        if t in (C0, X1F):
            continue
        add(t, b"", "other type")
        add(t, bytes(rng.randrange(256) for _ in range(rng.randrange(1, 12))), "other type")


def text(rng, n, nul=False):
    """n bytes of valid UTF-8 (mostly ASCII), optionally with 0x00 bytes"""
    out = b""
    while len(out) < n:
        ch = rng.choice(["A", "b", " ", "7", "é", "°", "\x00" if nul else "z", "\x7f"]).encode()
        if len(out) + len(ch) <= n:
            out += ch
    return out


def total(rng, n):
    """totality: arbitrary bytes, length 0..80, for every header type"""
    subs = [0x20, 0x21, 0x22, 0x23, 0x32, 0x33, 0x24]
    for _ in range(n):
        add(C0, bytes(rng.randrange(256) for _ in range(rng.randrange(0, 81))), "total:c0 bytes")
        add(X1F, bytes(rng.randrange(256) for _ in range(rng.randrange(0, 81))), "total:ext bytes")
        # plausible sub-header, body exact or arbitrary
        nl, rl, rc = rng.choice([0, 0, 0, 1, 5]), rng.randrange(0, 13), rng.randrange(0, 7)
        ln = nl + rl * rc if rng.random() < 0.6 else rng.randrange(0, 73)
        add(C0, c0(rng.choice(subs), nl, rl, rc, bytes(rng.randrange(256) for _ in range(min(ln, 72))),
               keep=rng.choice([0, 0, 255])), "total:c0 plausible")
        sid = rng.choice([0xFF10, 0xFF11, 0xFF13, 0xFF30, 0xFF49, 0xFF12])
        add(X1F, ext(sid, bytes(rng.randrange(256) for _ in range(rng.randrange(0, 79)))), "total:ext known id")
    for t in range(256):
        for _ in range(12):
            add(t, bytes(rng.randrange(256) for _ in range(rng.randrange(0, 81))), "total:any type")


def randoms(rng, n):
    subs = list(BASE)
    for _ in range(n):
        sub = rng.choice(subs)
        k, _b = BASE[sub]
        rl = rng.choice([k, k, k, k + 2, k + 3])
        rc = rng.randrange(0, 4)
        add(C0, c0(sub, 0, rl, rc, bytes(rng.randrange(256) for _ in range(rl * rc))), "random:c0 records")
    for _ in range(n // 2):
        ln = rng.randrange(0, 40)
        add(C0, bytes(rng.randrange(256) for _ in range(ln)), "random:c0 bytes")
        sid = rng.choice([0xFF10, 0xFF11, 0xFF13, 0xFF30, 0xFF49])
        add(X1F, ext(sid, bytes(rng.randrange(256) for _ in range(ln))), "random:ext bytes")
    for _ in range(n // 2):
        # well-formed zone names / ability lists with random content
        body = b""
        for _z in range(rng.randrange(1, 5)):
            s = text(rng, rng.randrange(0, 8))
            body += bytes([rng.randrange(256), len(s)]) + s
        add(X1F, ext(0xFF13, body), "random:ff13 well-formed")
        body = b""
        for _a in range(rng.randrange(1, 4)):
            L = rng.choice([24, 24, 24, 26, 30])
            body += bytes([rng.randrange(256), L]) + text(rng, 16, nul=True) + \
                bytes(rng.randrange(256) for _ in range(L - 16))
        add(X1F, ext(0xFF11, body), "random:ff11 well-formed")


def main():
    out = sys.argv[1]
    rng = random.Random(int(sys.argv[2]) if len(sys.argv) > 2 else 5)
    vectors()
    doc_examples()
    enum_records()
    enum_subheader(rng)
    enum_ext(rng)
    others(rng)
    randoms(rng, 3000)
    total(rng, 4000)
    with open(out, "w") as f:
        json.dump(cases, f)
    print(len(cases), "cases ->", out)


main()
