#!/usr/bin/env python3
"""Bookkeeping for seeded changes (/verif/seeded/<id>/).

  seeded.py confirm <worktree> <id> <property>   verify in the scratch worktree that the existing tests pass with
                                                 the change, the demonstration fails with it and passes without it;
                                                 copy patch.diff / demo / NOTES.md to /verif/seeded/<id>/, write meta.json
  seeded.py run <id> [<check> ...]               apply the patch to /repo, run the given checks (default: the property's
                                                 own check) in the quick tier, undo the patch, record the outcome
"""
import json
import os
import shutil
import subprocess
import sys
import time

ROOT = os.path.dirname(os.path.dirname(os.path.abspath(__file__)))
SEEDED = os.path.join(ROOT, "seeded")


def sh(cmd, cwd=None, env=None, timeout=1800):
    e = dict(os.environ)
    if env:
        e.update(env)
    p = subprocess.run(cmd, shell=True, cwd=cwd, env=e, stdout=subprocess.PIPE, stderr=subprocess.STDOUT, text=True, timeout=timeout)
    return p.returncode, p.stdout


def find_demo(wt):
    for n in ("demo.py", "test_demo.py", "demo_test.py"):
        if os.path.exists(os.path.join(wt, n)):
            return n
    for n in os.listdir(wt):
        if n.endswith(".py") and ("demo" in n or n.startswith("test_")) and os.path.isfile(os.path.join(wt, n)):
            return n
    return None


def run_demo(wt, demo):
    if demo.startswith("test_") or demo.endswith("_test.py"):
        return sh(f"PYTHONPATH={wt} /venv/bin/python -m pytest -q -p no:cacheprovider {demo}", cwd=wt, timeout=600)
    return sh(f"PYTHONPATH={wt} /venv/bin/python {demo}", cwd=wt, timeout=600)


def confirm(wt, sid, prop):
    out = {"id": sid, "property": prop, "worktree": wt}
    patch = os.path.join(wt, "patch.diff")
    rc, diff = sh("git diff -- pyairtouch", cwd=wt)
    if not diff.strip():
        # the agent may have left the tree clean with only patch.diff
        if not os.path.exists(patch):
            print("no change found")
            return 1
        sh("git apply patch.diff", cwd=wt)
        rc, diff = sh("git diff -- pyairtouch", cwd=wt)
    with open(patch, "w") as f:
        f.write(diff)
    demo = find_demo(wt)
    if not demo:
        print("no demo found")
        return 1
    rc_t, o_t = sh(f"PYTHONPATH={wt} /venv/bin/python -m pytest -q -p no:cacheprovider tests", cwd=wt)
    out["tests_with_change"] = o_t.strip().splitlines()[-1] if o_t.strip() else ""
    rc_d1, o_d1 = run_demo(wt, demo)
    sh("git apply -R patch.diff", cwd=wt)
    rc_d0, o_d0 = run_demo(wt, demo)
    sh("git apply patch.diff", cwd=wt)
    out["demo"] = demo
    out["demo_with_change_rc"] = rc_d1
    out["demo_without_change_rc"] = rc_d0
    ok = rc_t == 0 and rc_d1 != 0 and rc_d0 == 0
    out["confirmed"] = ok
    print(json.dumps(out, indent=1))
    if not ok:
        print("NOT CONFIRMED")
        print("--- demo with change:\n", o_d1[-1500:])
        print("--- demo without change:\n", o_d0[-1500:])
        return 1
    d = os.path.join(SEEDED, sid)
    os.makedirs(d, exist_ok=True)
    shutil.copy(patch, os.path.join(d, "patch.diff"))
    shutil.copy(os.path.join(wt, demo), os.path.join(d, demo))
    if os.path.exists(os.path.join(wt, "NOTES.md")):
        shutil.copy(os.path.join(wt, "NOTES.md"), os.path.join(d, "NOTES.md"))
    meta = {"id": sid, "breaks_property": prop, "demo": demo,
            "needs_to_manifest": "see NOTES.md",
            "confirmed": {"existing_tests_with_change": out["tests_with_change"],
                          "demo_with_change_exit": rc_d1, "demo_without_change_exit": rc_d0,
                          "how": "scratch worktree of /repo HEAD; PYTHONPATH=<worktree> /venv/bin/python"},
            "checks": {}}
    with open(os.path.join(d, "meta.json"), "w") as f:
        json.dump(meta, f, indent=1)
    return 0


APPLY_WT = "/tmp/verif_seeded_wt"


def run(sid, checks, in_place=False):
    """in_place=False (default): the patch is applied to a scratch worktree of /repo's HEAD and the checks
    are pointed at it (VERIF_REPO), so /repo itself stays clean and other runs are not disturbed;
    in_place=True: git -C /repo apply / checkout, exactly as a user of the checks would do."""
    d = os.path.join(SEEDED, sid)
    meta = json.load(open(os.path.join(d, "meta.json")))
    checks = checks or [meta["breaks_property"]]
    patch = os.path.join(d, "patch.diff")
    if in_place:
        tree = "/repo"
        rc, o = sh("git status --short", cwd="/repo")
        if o.strip():
            print("/repo is not clean:", o)
            return 2
    else:
        tree = APPLY_WT + "_" + sid
        sh(f"git -C /repo worktree remove --force {tree}")
        sh("git -C /repo worktree prune")
        rc, o = sh(f"git -C /repo worktree add -q --detach {tree} HEAD")
        if rc != 0:
            print("cannot create scratch worktree:", o)
            return 2
    rc, o = sh(f"git apply {patch}", cwd=tree)
    if rc != 0:
        print("patch does not apply:", o)
        return 2
    env = {} if in_place else {"VERIF_REPO": tree, "VERIF_EVIDENCE_DIR": "/tmp/verif_seeded_evidence_" + sid}
    try:
        for c in checks:
            t0 = time.time()
            rc, o = sh(f"/venv/bin/python checks/check.py {c} --tier quick", cwd=ROOT, env=env, timeout=3600)
            viol = [ln for ln in o.splitlines() if ln.startswith("VIOLATION")]
            clauses = sorted({w.split("=", 1)[1] for ln in viol for w in ln.split() if w.startswith("clause=")})
            meta["checks"][c] = {"exit": rc, "violations": len(viol), "clauses": clauses, "wall_s": round(time.time() - t0, 1),
                                 "detected": rc == 1 and bool(viol)}
            print(sid, c, "exit", rc, "violations", len(viol), clauses)
            if rc not in (0, 1):
                print(o[-1500:])
    finally:
        if in_place:
            sh("git checkout -- .", cwd="/repo")
        else:
            sh(f"git -C /repo worktree remove --force {tree}")
            sh("rm -rf /tmp/verif_seeded_evidence_" + sid)
    with open(os.path.join(d, "meta.json"), "w") as f:
        json.dump(meta, f, indent=1)
    return 0


def run_all():
    """Every seeded change against the check of its own property (plus checks already recorded for it)."""
    for sid in sorted(os.listdir(SEEDED)):
        mp = os.path.join(SEEDED, sid, "meta.json")
        if not os.path.exists(mp):
            continue
        meta = json.load(open(mp))
        checks = sorted(set([meta["breaks_property"]] + list(meta.get("checks", {}))))
        rc = run(sid, checks)
        if rc:
            return rc
    return 0


def table():
    print("| id | property | change | needs to manifest | detected by (clauses) | strengthening the check needed |")
    print("|----|----------|--------|-------------------|-----------------------|-------------------------------|")
    for sid in sorted(os.listdir(SEEDED)):
        mp = os.path.join(SEEDED, sid, "meta.json")
        if not os.path.exists(mp):
            continue
        m = json.load(open(mp))
        det = "; ".join(f"{c}: {', '.join(v['clauses'])}" if v.get("detected") else f"{c}: MISSED" for c, v in sorted(m.get("checks", {}).items()))
        needs = m.get("needs_to_manifest", "").replace(" (details: NOTES.md)", "")
        print(f"| {sid} | {m['breaks_property']} | {m.get('summary', '')} | {needs} | {det} | {m.get('strengthening_needed', '') or '-'} |")
    return 0


if __name__ == "__main__":
    if sys.argv[1] == "all":
        sys.exit(run_all())
    if sys.argv[1] == "table":
        sys.exit(table())
    if sys.argv[1] == "confirm":
        sys.exit(confirm(sys.argv[2], sys.argv[3], sys.argv[4]))
    if sys.argv[1] == "run":
        sys.exit(run(sys.argv[2], [a for a in sys.argv[3:] if a != "--in-place"], in_place="--in-place" in sys.argv))
