------------------------------- MODULE Pairs -------------------------------
(* Dev aid for section 3 of spec/ApiModel.tla (C19): for every pair of IOEnv.CASES (gen_pairs.py) the  *)
(* observed snapshots of the two generations, projected with Common, must be equal attribute by        *)
(* attribute, the same calls must be accepted / refused alike and the frames they transmit must have   *)
(* the same AbstractCmd.  Differences go to IOEnv.OUT.                                                  *)
EXTENDS ApiModel, WireMsg, Json, IOUtils

Pairs == JsonDeserialize(IOEnv.CASES)

Attrs(r) == SelectSeq(<<"ac_id", "name", "supported_modes", "supported_fan_speeds", "power_state", "selected_mode",
                        "active_mode", "selected_fan_speed", "active_fan_speed", "current_temperature",
                        "target_temperature", "spill_state", "on_timer", "off_timer", "error_info",
                        "zone_id", "supported_power_states", "control_method", "has_temp_sensor",
                        "sensor_battery_status", "current_damper_percentage", "spill_active",
                        "target_temperature_resolution", "supported_power_controls", "min_target_temperature",
                        "max_target_temperature">>, LAMBDA f : AmHas(r, f))

DiffAttrs(x, y) == SelectSeq(Attrs(x), LAMBDA f : ~AmHas(y, f) \/ ~Eq(x[f], y[f]))
                   \o SelectSeq(Attrs(y), LAMBDA f : ~AmHas(x, f))

Readings(c, k) == [i \in 1..Len(c.calls[k].frames) |->
                     ReadMsg(c.proto, c.calls[k].frames[i].type, c.calls[k].frames[i].payload)]

SameMeaning(n, a4, a5) ==
  IF Eq(a4.timers, "keep") /\ Eq(a5.timers, "keep") THEN Eq(a4, a5)
  ELSE Eq(AbstractTimerFor(a4, n), AbstractTimerFor(a5, n)) /\ AbstractTimerFor(a4, n) # <<>>

PairVerdict(pi) ==
  LET p  == Pairs[pi]
      c4 == p.at4
      c5 == p.at5
  IN [acs |-> [i \in 1..Len(c4.model) |->
                 LET x == Common("at4", c4.model[i])
                     y == Common("at5", c5.model[i])
                 IN [ac |-> i - 1, bad |-> DiffAttrs(x, y),
                     zones |-> [j \in 1..Len(x.zones) |-> [bad |-> DiffAttrs(x.zones[j], y.zones[j]),
                                                            x |-> x.zones[j], y |-> y.zones[j]]],
                     x |-> [x EXCEPT !.zones = <<>>], y |-> [y EXCEPT !.zones = <<>>]]],
      nacs |-> <<Len(c4.model), Len(c5.model)>>,
      calls |-> [k \in 1..Len(c4.calls) |->
                   LET r4 == Readings(c4, k)
                       r5 == Readings(c5, k)
                       a4 == [i \in 1..Len(r4) |-> AbstractCmd("at4", r4[i])]
                       a5 == [i \in 1..Len(r5) |-> AbstractCmd("at5", r5[i])]
                   IN [ok |-> /\ c4.calls[k].res = c5.calls[k].res
                              /\ Len(r4) = Len(r5)
                              /\ \A i \in 1..Len(r4) : SameMeaning(c4.calls[k].call.owner, a4[i], a5[i]),
                       call |-> c4.calls[k].call, res |-> <<c4.calls[k].res, c5.calls[k].res>>, a4 |-> a4, a5 |-> a5]]]

Out == [pi \in 1..Len(Pairs) |-> PairVerdict(pi)]
ASSUME JsonSerialize(IOEnv.OUT, Out)
ASSUME PrintT(<<"pairs", Len(Pairs)>>)
=============================================================================
