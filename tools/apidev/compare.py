"""Dev aid: list the differences Dev.tla found between ApiModel's expectations and the real client.

usage: compare.py CASES.json OUT.json [-v]
Prints one line per differing attribute / call, grouped by a short signature, and the totals of what
was compared (determined attributes, calls, calls with a determined expectation).
"""
import collections
import json
import sys

cases = json.load(open(sys.argv[1]))
out = json.load(open(sys.argv[2]))
verbose = "-v" in sys.argv
assert len(cases) == len(out), (len(cases), len(out))

groups = collections.defaultdict(list)
n_attr = n_attr_det = n_calls = n_calls_det = n_rej = n_acs = n_zones = 0


def short(x, n=300):
    s = json.dumps(x, sort_keys=True)
    return s if len(s) <= n else s[:n] + "..."


for c, o in zip(cases, out):
    tag = f"{c['proto']} seed={c['seed']}"
    for oa, va in zip(c["model"], o["snap"]):
        n_acs += 1
        n_attr += 19
        n_attr_det += va["nattrs"]
        for f in va["bad"]:
            groups[f"{c['proto']} ac.{f}"].append(f"{tag} ac {va['ac']}: exp {short(va['exp'][f])} obs {short(oa[f])}"
                                                   f" status {short(va['state']['status'])} timer {short(va['state']['timer'])}"
                                                   f" err {short(va['state']['err'])} ability {short(va['state']['ability'], 600)}")
        for oz, vz in zip(oa["zones"], va["zones"]):
            n_zones += 1
            n_attr += 12
            n_attr_det += vz["nattrs"]
            for f in vz["bad"]:
                groups[f"{c['proto']} zone.{f}"].append(f"{tag} zone {vz['zone']}: exp {short(vz['exp'][f])} obs {short(oz[f])}"
                                                         f" status {short(vz['state']['status'])}")
    for oc, vc in zip(c["calls"], o["calls"]):
        n_calls += 1
        if vc["exp"]["any"] is not True:
            n_calls_det += 1
        if vc["exp"]["reject"] is True:
            n_rej += 1
        if not vc["ok"]:
            call = oc["call"]
            st = vc["z"].get("status") if call["tk"] == "zone" else (vc["a"].get("status") if call["tk"] == "ac" else None)
            groups[f"{c['proto']} {call['tk']}.{call['method']}"].append(
                f"{tag} {call['target']}.{call['method']}({short(call['args'])}, {short(call['kwargs'])}) res {oc['res']}"
                f" sent {short(vc['obs'], 500)}  EXPECTED reject={vc['exp']['reject']} any={vc['exp']['any']} msgs {short(vc['exp']['msgs'], 700)}"
                f"  status {short(st)}" + (f" timer {short(vc['a'].get('timer'))} ability {short(vc['a'].get('ability'), 600)}" if call["tk"] == "ac" else ""))

print(f"compared: {len(cases)} cases, {n_acs} AC snapshots, {n_zones} zone snapshots, {n_attr_det}/{n_attr} attributes determined; "
      f"{n_calls} calls ({n_calls_det} with a determined frame, {n_rej} must be refused)")
if not groups:
    print("no differences")
for g in sorted(groups):
    print(f"== {g}: {len(groups[g])}")
    for line in groups[g][: (50 if verbose else 3)]:
        print("   " + line)
