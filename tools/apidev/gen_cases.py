"""Dev aid for spec/ApiModel.tla: run the real client against a simulated console and record, per
case, the console frames it consumed, the snapshot of the public object model and a batch of public
control calls with the frames each of them put on the wire.

usage: gen_cases.py OUT.json [SEED] [N_CASES]

Case (JSON, no null / float):
  {"proto", "frames": [{"to", "type", "payload"}],            # console -> client, in order
   "model": [<snapshot.ac()>...],                              # after the last frame
   "calls": [{"call": {"tk", "tn", "owner", "target", "method", "args", "kwargs"},
              "res": "ok" | "ValueError" | ..., "frames": [{"to", "type", "payload"}]}]}
Nothing here is an oracle: Dev.tla reads the frames with WireMsg!ReadMsg and judges with ApiModel.
"""
import json
import random
import sys

sys.path.insert(0, "/verif")
sys.path.insert(0, "/repo")

from harness import console as C                       # noqa: E402
from harness.executor import run_script                # noqa: E402

import harness.executor as _X                          # noqa: E402
import pyairtouch.comms.socket as _S                   # noqa: E402

E = lambda e, n: {"enum": e, "name": n}                # noqa: E731

# Observation only: which retry policy the API hands to the socket for the frame of each call (C02
# policy part).  The current call id is noted when the executor starts a call, the policy when the
# client submits a message.
_CUR = [None]
POLICIES = {}
_orig_op_call = _X.World.op_call
_orig_send = _S.AirTouchSocket.send


def _op_call(self, op):
    _CUR[0] = op["id"]
    return _orig_op_call(self, op)


async def _send(self, message, retry_policy):
    POLICIES.setdefault(_CUR[0], []).append([int(retry_policy.max_retries), round(retry_policy.max_lifetime * 1000)])
    return await _orig_send(self, message, retry_policy)


_X.World.op_call = _op_call
_S.AirTouchSocket.send = _send


def tbytes(t):
    """t = (enabled, hour, minute) -> two bytes (bit8 of the first = disabled)."""
    en, h, m = t
    return [(0 if en else 0x80) | (h & 0x1F), m & 0x3F]


def rtimer(rng, wild=False):
    if wild and rng.random() < 0.15:
        return (rng.random() < 0.7, rng.randrange(32), rng.randrange(64))
    return (rng.random() < 0.5, rng.randrange(24), rng.randrange(60))


def r_ac_status(proto, rng, n, common=False):
    s = {"n": n, "mode": rng.choice([0, 1, 2, 3, 4, 8, 9]), "spill": rng.randrange(2), "timer": rng.randrange(2),
         "err": rng.choice([0, 0, 0, 1, 0xFFFE, 300]), "temp_raw": rng.choice([500, 650 + rng.randrange(150), rng.randrange(0, 2001)])}
    if proto == "at4":
        s.update(power=rng.choice([0, 1]), fan=rng.randrange(7), sp=rng.randrange(64))
        if s["temp_raw"] // 8 == 0xFF:
            s["temp_raw"] = 700
    else:
        s.update(power=rng.choice([0, 1]) if common else rng.choice([0, 1, 2, 3, 5]),
                 fan=rng.randrange(7) if common else rng.choice([0, 1, 2, 3, 4, 5, 6, 9, 10, 11, 12, 13, 14]),
                 sp=rng.choice([rng.randrange(251), 100 + 10 * rng.randrange(15)]), bypass=rng.randrange(2), turbo=rng.randrange(2))
    return s


def r_zone_status(proto, rng, n):
    sensor = rng.randrange(2)
    s = {"n": n, "power": rng.choice([0, 1, 3]), "method": rng.randrange(2), "pct": rng.choice([0, 100, 5 * rng.randrange(21), rng.randrange(101)]),
         "sensor": sensor, "turbo": rng.randrange(2), "batt_low": rng.randrange(2), "spill": rng.randrange(2)}
    if proto == "at4":
        s["sp"] = rng.randrange(64)
        s["temp_raw"] = rng.choice([None, 500, 600 + rng.randrange(200)]) if rng.random() < 0.5 or not sensor else 600 + rng.randrange(200)
    else:
        s["sp"] = rng.choice([0xFF, rng.randrange(251), 80 + 5 * rng.randrange(30)])
        s["temp_raw"] = rng.choice([0x7FF, 2001, 500, 600 + rng.randrange(200)]) if rng.random() < 0.5 or not sensor else 600 + rng.randrange(200)
    return s


def installation(proto, rng):
    n_acs = rng.choice([1, 1, 2, 2, 3, 4])
    n_zones = rng.randrange(0 if proto == "at5" else 1, 9)
    cuts = sorted(rng.randrange(0, n_zones + 1) for _ in range(n_acs - 1))
    bounds = [0] + cuts + [n_zones]
    names = [b"Living", b"Kitchen", b"Bed 1", b"Bed 2", b"Study", "Küche".encode(), b"Z6", b"Z7", b"Z8"]
    acs, zones = [], []
    for i in range(n_acs):
        zs = list(range(bounds[i], bounds[i + 1]))
        lo = 14 + rng.randrange(6)
        a = {"n": i, "name": [b"UNIT", b"Upstairs", b"AC3", b"0123456789abcdef"][i], "zones": zs, "start": bounds[i], "count": len(zs),
             "modes": rng.choice([0x1F, 0x17, 0x1B, 0x11, 0x04, rng.randrange(32)]),
             "fans": rng.choice([0x7F, 0x1D, 0x3F, rng.randrange(128)]) if proto == "at4" else rng.choice([0xFF, 0x1D, 0x9D, rng.randrange(256)]),
             "min": lo, "max": lo + 8 + rng.randrange(8),
             "min_cool": 14 + rng.randrange(6), "max_cool": 26 + rng.randrange(8), "min_heat": 12 + rng.randrange(8), "max_heat": 25 + rng.randrange(8)}
        a["status"] = r_ac_status(proto, rng, i)
        a["timers"] = (rtimer(rng, True), rtimer(rng, True))
        acs.append(a)
    for z in range(n_zones):
        zones.append({"n": z, "name": names[z][:8] if proto == "at4" else names[z], "status": r_zone_status(proto, rng, z)})
    return {"proto": proto, "acs": acs, "zones": zones,
            "version": (rng.random() < 0.3, b"1.3.3|1.3.3" if proto == "at4" else b"1.0.1,1.0.1"), "old_format": rng.random() < 0.2}


def timer_frame(proto, acs_timers, pid):
    """acs_timers: list of (n, on, off)."""
    if proto == "at4":
        by = dict((n, (on, off)) for n, on, off in acs_timers)
        out = []
        for n in range(4):
            on, off = by.get(n, ((False, 0, 0), (False, 0, 0)))
            out += tbytes(on) + tbytes(off) + [0, 0, 0, 0]
        return C.from_console(proto, 0x37, out, pid=pid)
    return C.from_console(proto, 0xC0, C.c0(0x33, [[n] + tbytes(on) + tbytes(off) + [0, 0, 0, 0] for n, on, off in acs_timers], 9), pid=pid)


def answers(inst):
    p = inst["proto"]
    acs, zones = inst["acs"], inst["zones"]
    ver = C.from_console(p, 0x1F, C.version(*inst["version"]), pid=1)
    timers = timer_frame(p, [(a["n"], a["timers"][0], a["timers"][1]) for a in acs], 5)
    if p == "at4":
        names = C.from_console(p, 0x1F, C.at4_group_names([(z["n"], z["name"]) for z in zones]), pid=2)
        ab = C.from_console(p, 0x1F, C.at4_ability([dict(a, groups=(None if inst["old_format"] else a["zones"])) for a in acs]), pid=3)
        acst = C.from_console(p, 0x2D, C.at4_ac_status([a["status"] for a in acs]), pid=4)
        zst = C.from_console(p, 0x2B, C.at4_group_status([z["status"] for z in zones]), pid=6)
    else:
        if zones:
            names = C.from_console(p, 0x1F, C.at5_zone_names([(z["n"], z["name"]) for z in zones]), pid=2)
            zst = C.from_console(p, 0xC0, C.at5_zone_status([z["status"] for z in zones]), pid=6)
        else:
            names = C.frame(p, 0xB0, 0x90, 2, 0x1F, [0xFF, 0x13])
            zst = C.frame(p, 0xB0, 0x80, 6, 0xC0, [0x21, 0, 0, 0, 0, 0, 0, 0])
        ab = C.from_console(p, 0x1F, C.at5_ability(acs), pid=3)
        acst = C.from_console(p, 0xC0, C.at5_ac_status([a["status"] for a in acs], rlen=rng_rlen(inst)), pid=4)
    return [ver, names, ab, acst, timers, zst]


def rng_rlen(inst):
    return 8 if inst["old_format"] else 10      # "Some version does not have those two bytes"


def extra_frames(inst, rng):
    """0..4 further console frames (status of a subset of entities, timers, error text)."""
    p = inst["proto"]
    acs, zones = inst["acs"], inst["zones"]
    out = []
    for _ in range(rng.choice([0, 1, 2, 3, 4])):
        kind = rng.choice(["ac", "ac", "zone", "timer", "err"])
        if kind == "ac":
            sub = rng.sample(acs, rng.randrange(1, len(acs) + 1))
            st = [r_ac_status(p, rng, a["n"]) for a in sub]
            out.append(C.from_console(p, 0x2D, C.at4_ac_status(st), pid=0) if p == "at4"
                       else C.from_console(p, 0xC0, C.at5_ac_status(st, rlen=rng.choice([8, 10])), pid=0))
        elif kind == "zone" and zones:
            sub = rng.sample(zones, rng.randrange(1, len(zones) + 1))
            st = [r_zone_status(p, rng, z["n"]) for z in sub]
            out.append(C.from_console(p, 0x2B, C.at4_group_status(st), pid=0) if p == "at4"
                       else C.from_console(p, 0xC0, C.at5_zone_status(st), pid=0))
        elif kind == "timer":
            sub = acs if p == "at4" else rng.sample(acs, rng.randrange(1, len(acs) + 1))
            out.append(timer_frame(p, [(a["n"], rtimer(rng, True), rtimer(rng, True)) for a in sub], 0))
        elif kind == "err":
            a = rng.choice(acs)
            out.append(C.from_console(p, 0x1F, C.error_info(a["n"], rng.choice([b"", b"ER: FFFE", b"E1", "Störung".encode()])), pid=0))
    return out


def temps(rng, lo, hi):
    """twentieths: ties, limits and beyond."""
    out = [rng.randrange(0, 1400) for _ in range(3)]
    out += [20 * rng.randrange(lo - 3, hi + 4) + rng.choice([0, 1, 9, 10, 11, 19]) for _ in range(5)]
    out += [20 * lo, 20 * hi, 20 * lo - rng.randrange(1, 12), 20 * hi + rng.randrange(1, 12), rng.choice([-30, 63 * 20 + 10, 64 * 20, 35 * 20 + 11, 10 * 20 - 1])]
    return out


def calls_for(inst, rng):
    p = inst["proto"]
    out = []
    for a in inst["acs"]:
        t = ("ac", a["n"], a["n"])
        for pc in ("TOGGLE", "TURN_OFF", "TURN_ON", "SET_TO_AWAY", "SET_TO_SLEEP"):
            out.append((t, "set_power", [E("AcPowerControl", pc)], {}))
        for m in ("AUTO", "HEAT", "DRY", "FAN", "COOL"):
            out.append((t, "set_mode", [E("AcMode", m)], rng.choice([{}, {"power_on": True}, {"power_on": False}])))
        for f in ("AUTO", "QUIET", "LOW", "MEDIUM", "HIGH", "POWERFUL", "TURBO", "INTELLIGENT_AUTO"):
            out.append((t, "set_fan_speed", [E("AcFanSpeed", f)], {}))
        lo, hi = (a["min"], a["max"]) if p == "at4" else (min(a["min_cool"], a["min_heat"]), max(a["max_cool"], a["max_heat"]))
        for n in temps(rng, lo, hi):
            out.append((t, "set_target_temperature", [{"twentieths": n}], {}))
        for tt in ("ON_TIMER", "OFF_TIMER"):
            out.append((t, "set_quick_timer", [E("AcTimerType", tt), {"time": [rng.randrange(24), rng.randrange(60)]}], {}))
            out.append((t, "set_quick_timer", [E("AcTimerType", tt), {"seconds": rng.choice([0, 59, 60, 3599, 3600, rng.randrange(0, 90000), rng.randrange(0, 400000)])}], {}))
            out.append((t, "clear_quick_timer", [E("AcTimerType", tt)], {}))
    for a in inst["acs"]:
        for zn in a["zones"]:
            t = ("zone", zn, a["n"])
            for ps in ("OFF", "ON", "TURBO"):
                out.append((t, "set_power", [E("ZonePowerState", ps)], {}))
            for n in temps(rng, 16, 30)[:8]:
                out.append((t, "set_target_temperature", [{"twentieths": n}], {}))
            for d in (0, 100, -1, 101, rng.randrange(101), rng.randrange(-5, 106)):
                out.append((t, "set_damper_percentage", [d], {}))
    out.append((("airtouch", 0, 0), "check_for_updates", [], {}))
    rng.shuffle(out)
    return out


def split_frames(proto, data):
    """bytes written by the client -> [{to, type, payload}]"""
    out = []
    i = 0
    while i < len(data):
        if proto == "at5":
            assert data[i:i + 4] == [0x55, 0x55, 0x55, 0xAB], data[i:i + 12]
            i += 10
            assert data[i:i + 4] == [0x55, 0x55, 0x55, 0xAA]
            i += 4
        else:
            assert data[i:i + 2] == [0x55, 0x55], data[i:i + 8]
            i += 2
        to, frm, _pid, typ, hi, lo = data[i:i + 6]
        n = hi * 256 + lo
        out.append({"to": to, "from": frm, "type": typ, "payload": data[i + 6:i + 6 + n]})
        i += 6 + n + 2
    return out


def feed_desc(proto, f):
    fr = split_frames(proto, list(f))[0]
    return {"to": fr["to"], "type": fr["type"], "payload": fr["payload"]}


def one_case(proto, seed):
    rng = random.Random(seed)
    inst = installation(proto, rng)
    fed = answers(inst) + extra_frames(inst, rng)
    return run_case(proto, inst, fed, calls_for(inst, rng), seed)


def run_case(proto, inst, fed, calls, seed):
    script = [{"op": "sub", "who": "c", "kind": "connection", "target": "socket"},
              {"op": "call", "id": 1, "target": "airtouch", "method": "init"}, {"op": "quiesce"},
              {"op": "resolve", "how": "ok"}, {"op": "quiesce"}]
    for f in fed:
        script += [{"op": "feed", "b": f}, {"op": "quiesce"}]
    script.append({"op": "snapshot", "tag": "s"})
    for i, ((tk, tn, owner), method, args, kwargs) in enumerate(calls):
        d = {"op": "call", "id": 100 + i, "target": "airtouch" if tk == "airtouch" else f"{tk}:{tn}", "method": method}
        if args:
            d["args"] = args
        if kwargs:
            d["kwargs"] = kwargs
        script += [d, {"op": "quiesce"}]
    script += [{"op": "call", "id": 99999, "target": "airtouch", "method": "shutdown"}, {"op": "quiesce"},
               {"op": "resolve_all", "how": "ok"}, {"op": "quiesce"}]
    POLICIES.clear()
    tr, err = run_script(script, proto=proto, target="client")
    policies = {k: list(v) for k, v in POLICIES.items()}
    if err:
        raise SystemExit(f"seed {seed} {proto}: {err}")
    model = None
    per = {}
    cur = None
    for e in tr:
        if e["e"] == "snapshot":
            model = e["model"]
        elif e["e"] == "call" and 100 <= e["id"] < 99999:
            cur = e["id"]
            per[cur] = {"bytes": [], "res": "none"}
        elif e["e"] == "call":
            cur = None
        elif e["e"] == "write" and cur is not None:
            per[cur]["bytes"] += e["b"]
        elif e["e"] == "ret" and e["id"] in per:
            per[e["id"]]["res"] = e["res"]
    assert model and model["initialised"] == {"v": True}, (seed, proto, model and model["initialised"])
    out_calls = []
    for i, ((tk, tn, owner), method, args, kwargs) in enumerate(calls):
        rec = per[100 + i]
        out_calls.append({"call": {"id": 100 + i, "tk": tk, "tn": tn, "owner": owner,
                                   "target": "airtouch" if tk == "airtouch" else f"{tk}:{tn}",
                                   "method": method, "args": args, "kwargs": kwargs},
                          "res": rec["res"], "frames": split_frames(proto, rec["bytes"]),
                          "policies": policies.get(100 + i, [])})
    return {"proto": proto, "seed": seed, "frames": [feed_desc(proto, f) for f in fed],
            "model": model["air_conditioners"], "calls": out_calls}


def main():
    out = sys.argv[1]
    seed = int(sys.argv[2]) if len(sys.argv) > 2 else 1
    n = int(sys.argv[3]) if len(sys.argv) > 3 else 40
    cases = []
    for i in range(n):
        for proto in ("at4", "at5"):
            cases.append(one_case(proto, seed * 100000 + i))
    json.dump(cases, open(out, "w"))
    print("cases", len(cases), "calls", sum(len(c["calls"]) for c in cases),
          "snapshot acs", sum(len(c["model"]) for c in cases), "zones", sum(len(a["zones"]) for c in cases for a in c["model"]))


if __name__ == "__main__":
    main()
