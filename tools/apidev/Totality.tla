------------------------------ MODULE Totality ------------------------------
(* Dev aid for spec/ApiModel.tla: no TLC type error for any well-shaped input.  Every entity state of *)
(* IOEnv.CASES is perturbed (status / timer never reported, "NA" leaves, absent Optional values, no    *)
(* sensor) and every operator is evaluated on it, every call also without args / kwargs / tk fields    *)
(* and with foreign argument shapes; results are forced with TLCFP (deep normalisation).              *)
EXTENDS ApiModel, WireMsg, Json, IOUtils

Cases == JsonDeserialize(IOEnv.CASES)
Unwrap(r) == IF IsWrapper(r.k) THEN r.sub_message ELSE r
Readings(c) == LET fs == SelectSeq(c.frames, LAMBDA f : f.to = 176)
               IN [i \in 1..Len(fs) |-> Unwrap(ReadMsg(c.proto, fs[i].type, fs[i].payload))]
RECURSIVE Cat(_, _, _)
Cat(rs, kind, fld) == IF rs = <<>> THEN <<>>
                      ELSE (IF Eq(Head(rs).k, kind) THEN Head(rs)[fld] ELSE <<>>) \o Cat(Tail(rs), kind, fld)
LastWhere(s, P(_)) == LET hits == SelectSeq(s, P) IN IF hits = <<>> THEN <<>> ELSE hits[Len(hits)]

AcStateOf(c, rs, n) ==
  [ability |-> LastWhere(Cat(rs, "AcAbilityMessage", "ac_abilities"), LAMBDA r : r.ac_number = n),
   status  |-> LastWhere(Cat(rs, "AcStatusMessage", "ac_status"), LAMBDA r : r.ac_number = n),
   timer   |-> LastWhere(Cat(rs, "AcTimerStatusMessage", "ac_timer_status"), LAMBDA r : r.ac_number = n),
   err     |-> <<>>, zones |-> <<>>]
ZoneStateOf(c, rs, n) ==
  [id |-> n, name |-> <<90>>,
   status |-> IF c.proto = "at4" THEN LastWhere(Cat(rs, "GroupStatusMessage", "groups"), LAMBDA r : r.group_number = n)
              ELSE LastWhere(Cat(rs, "ZoneStatusMessage", "zones"), LAMBDA r : r.zone_number = n)]

NAFields(r) == {f \in DOMAIN r : f \notin {"k", "ac_number", "group_number", "zone_number", "error_code"}}

AcVariants(a) ==
  <<a, [a EXCEPT !.status = <<>>], [a EXCEPT !.timer = <<>>], [a EXCEPT !.status = <<>>, !.timer = <<>>],
    [a EXCEPT !.err = <<<<69, 49>>>>], [a EXCEPT !.status.error_code = 7, !.err = <<<<69>>>>],
    [a EXCEPT !.status.error_code = 7, !.err = <<>>]>>
  \o [i \in 1..5 |-> LET f == <<"power_state", "mode", "fan_speed", "set_point", "temperature">>[i]
                    IN [a EXCEPT !.status[f] = "NA"]]
  \o <<[a EXCEPT !.timer.on_timer.hour = 31, !.timer.on_timer.disabled = FALSE],
       [a EXCEPT !.timer.off_timer.minute = 63, !.timer.off_timer.disabled = FALSE]>>

ZoneVariants(z) ==
  <<z, [z EXCEPT !.status = <<>>], [z EXCEPT !.status.power_state = "NA"],
    [z EXCEPT !.status.has_sensor = FALSE], [z EXCEPT !.status.has_sensor = TRUE],
    [z EXCEPT !.status.set_point = <<>>], [z EXCEPT !.status.temperature = <<>>],
    [z EXCEPT !.status.has_sensor = FALSE, !.status.battery_status = "LOW"]>>

Strip(call, fs) == [f \in (DOMAIN call) \ fs |-> call[f]]
\* (a damper argument is a raw integer: record-shaped arguments are not well-shaped for that call)
CallVariants(call) ==
  IF call.method = "set_damper_percentage"
  THEN <<call, Strip(call, {"kwargs"}), Strip(call, {"args", "kwargs"}), Strip(call, {"tk", "tn"}),
         [call EXCEPT !.args = <<>>], [call EXCEPT !.args = <<-7>>]>>
  ELSE
  <<call, Strip(call, {"kwargs"}), Strip(call, {"args", "kwargs"}), Strip(call, {"tk", "tn"}),
    [call EXCEPT !.args = <<>>], [call EXCEPT !.args = <<[enum |-> "Foo", name |-> "BAR"]>>],
    [call EXCEPT !.args = <<[enum |-> "AcTimerType", name |-> "ON_TIMER"], [seconds |-> -5]>>],
    [call EXCEPT !.args = <<[enum |-> "AcTimerType", name |-> "ON_TIMER"], [time |-> <<25, 61>>]>>],
    [call EXCEPT !.args = <<[f |-> 22450]>>], [call EXCEPT !.args = <<[twentieths |-> -25]>>],
    [call EXCEPT !.method = "subscribe"], [call EXCEPT !.kwargs = [power_on |-> TRUE]]>>

Force(x) == TLCFP(x) = TLCFP(x)

AcOK(proto, a, calls) ==
  /\ Force(AcSnap(proto, a, <<>>)) /\ Force(AcSnapNoZones(proto, a)) /\ Force(Common(proto, AcSnap(proto, a, <<>>)))
  /\ \A k \in 1..Len(calls) :
       \A v \in 1..Len(CallVariants(calls[k].call)) :
          LET call == CallVariants(calls[k].call)[v]
              e    == Expect(proto, call, a, <<>>)
          IN /\ Force(e)
             /\ \A i \in 1..Len(e.msgs) : Force(CmdMatches(e, e.msgs[i])) /\ Force(AbstractCmd(proto, e.msgs[i]))
             /\ Force(ExpectOK(e, TRUE, <<>>)) /\ Force(ExpectOK(e, FALSE, e.msgs))

ZoneOK(proto, a, z, calls) ==
  /\ Force(ZoneSnap(proto, z)) /\ Force(CommonZone(proto, ZoneSnap(proto, z)))
  /\ Force(Common(proto, AcSnap(proto, a, <<ZoneSnap(proto, z)>>)))
  /\ \A k \in 1..Len(calls) :
       \A v \in 1..Len(CallVariants(calls[k].call)) :
          LET call == CallVariants(calls[k].call)[v]
              e    == Expect(proto, call, a, z)
          IN /\ Force(e)
             /\ \A i \in 1..Len(e.msgs) : Force(CmdMatches(e, e.msgs[i])) /\ Force(AbstractCmd(proto, e.msgs[i]))

CaseOK(ci) ==
  LET c  == Cases[ci]
      rs == Readings(c)
      acCalls(n)   == SelectSeq(c.calls, LAMBDA oc : oc.call.tk = "ac" /\ oc.call.tn = n)
      zoneCalls(n) == SelectSeq(c.calls, LAMBDA oc : oc.call.tk = "zone" /\ oc.call.tn = n)
  IN /\ \A i \in 1..Len(c.model) :
          LET n  == c.model[i].ac_id.v
              a  == AcStateOf(c, rs, n)
              av == AcVariants(a)
          IN /\ \A v \in 1..Len(av) : AcOK(c.proto, av[v], acCalls(n))
             /\ \A j \in 1..Len(c.model[i].zones) :
                  LET zn == c.model[i].zones[j].zone_id.v
                      zv == ZoneVariants(ZoneStateOf(c, rs, zn))
                  IN \A v \in 1..Len(zv) : \A w \in {1, 2, 3} : ZoneOK(c.proto, av[w], zv[v], zoneCalls(zn))
     /\ \A k \in 1..Len(c.calls) :           \* observed readings and raises-shaped attributes
          \A i \in 1..Len(c.calls[k].frames) :
             LET r == ReadMsg(c.proto, c.calls[k].frames[i].type, c.calls[k].frames[i].payload)
             IN Force(AbstractCmd(c.proto, r)) /\ Force(AbstractTimerFor(AbstractCmd(c.proto, r), 0))
     /\ \A e \in {"ANY"} : Force(AttrOK(e, [raises |-> "ValueError"])) /\ Force(AttrOK(e, [v |-> 3]))
     /\ \A i \in 1..Len(c.model) :
          /\ Force(Common(c.proto, c.model[i]))
          /\ Force(Common(c.proto, [c.model[i] EXCEPT !.zones = [raises |-> "KeyError"]]))
          /\ Force(AttrOK(AmV(3), [raises |-> "KeyError"])) /\ Force(AttrOK(AmSetOf({"A"}), [unprojectable |-> "X"]))
          /\ Force(AttrOK(AmOneOf(<<"A", <<>>>>), [v |-> <<>>]))

ASSUME \A ci \in 1..Len(Cases) : CaseOK(ci)
ASSUME PrintT(<<"total", Len(Cases)>>)
=============================================================================
