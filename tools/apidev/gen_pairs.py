"""Dev aid for section 3 of spec/ApiModel.tla (C19): equivalent installations on the two generations
(integer temperatures, common enums, no away / sleep / intelligent auto / bypass, one limit pair,
AT4 zones supporting turbo, sensor-less zones without a set-point), the same calls on both.

usage: gen_pairs.py OUT.json [SEED] [N]      -> [{"at4": case, "at5": case}] (cases as in gen_cases.py)
"""
import json
import random
import sys

import gen_cases as G

C = G.C


def neutral(rng):
    n_acs = rng.choice([1, 2, 3, 4])
    n_zones = rng.randrange(1, 9)
    cuts = sorted(rng.randrange(0, n_zones + 1) for _ in range(n_acs - 1))
    bounds = [0] + cuts + [n_zones]
    names = [b"Living", b"Kitchen", b"Bed 1", b"Bed 2", b"Study", "Küche".encode(), b"Z6", b"Z7", b"Z8"]
    acs, zones = [], []
    for i in range(n_acs):
        lo = 14 + rng.randrange(6)
        hi = lo + 6 + rng.randrange(8)
        acs.append({"n": i, "name": [b"UNIT", b"Upstairs", b"AC3", b"AC4"][i], "zones": list(range(bounds[i], bounds[i + 1])),
                    "start": bounds[i], "count": bounds[i + 1] - bounds[i], "modes": rng.randrange(32), "fans": rng.randrange(128),
                    "min": lo, "max": hi,
                    "status": {"n": i, "power": rng.randrange(2), "mode": rng.choice([0, 1, 2, 3, 4, 8, 9]), "fan": rng.randrange(7),
                               "deg": rng.randrange(10, 36), "temp_raw": rng.randrange(0, 2001), "spill": rng.randrange(2),
                               "timer": rng.randrange(2), "err": rng.choice([0, 0, 5])},
                    "timers": (G.rtimer(rng), G.rtimer(rng))})
    for z in range(n_zones):
        sensor = rng.randrange(2)
        zones.append({"n": z, "name": names[z], "status": {"n": z, "power": rng.choice([0, 1, 3]), "method": rng.randrange(2),
                                                          "pct": rng.randrange(101), "sensor": sensor, "deg": rng.randrange(10, 36),
                                                          "temp_raw": rng.randrange(0, 2001) if sensor else None,
                                                          "batt_low": rng.randrange(2), "spill": rng.randrange(2)}})
    return {"acs": acs, "zones": zones, "update": rng.random() < 0.3}


def concrete(proto, neu):
    acs, zones = [], []
    for a in neu["acs"]:
        b = dict(a)
        st = dict(a["status"])
        st["sp"] = st["deg"] if proto == "at4" else st["deg"] * 10 - 100
        b["status"] = st
        b.update(min_cool=a["min"], min_heat=a["min"], max_cool=a["max"], max_heat=a["max"])
        acs.append(b)
    for z in neu["zones"]:
        st = dict(z["status"])
        if proto == "at4":
            st["sp"] = st["deg"]
            st["turbo"] = 1
        else:
            st["sp"] = st["deg"] * 10 - 100 if st["sensor"] else 0xFF
            st["temp_raw"] = 0x7FF if st["temp_raw"] is None else st["temp_raw"]
        zones.append({"n": z["n"], "name": z["name"], "status": st})
    return {"proto": proto, "acs": acs, "zones": zones, "old_format": False,
            "version": (neu["update"], b"1.3.3|1.3.3" if proto == "at4" else b"1.3.3,1.3.3")}


def common_calls(neu, rng):
    E = G.E
    out = []
    for a in neu["acs"]:
        t = ("ac", a["n"], a["n"])
        for pc in ("TOGGLE", "TURN_OFF", "TURN_ON"):
            out.append((t, "set_power", [E("AcPowerControl", pc)], {}))
        for m in ("AUTO", "HEAT", "DRY", "FAN", "COOL"):
            out.append((t, "set_mode", [E("AcMode", m)], rng.choice([{}, {"power_on": True}])))
        for f in ("AUTO", "QUIET", "LOW", "MEDIUM", "HIGH", "POWERFUL", "TURBO"):
            out.append((t, "set_fan_speed", [E("AcFanSpeed", f)], {}))
        for d in (a["min"] - 2, a["min"], rng.randrange(a["min"], a["max"] + 1), a["max"], a["max"] + 3):
            out.append((t, "set_target_temperature", [{"twentieths": 20 * d}], {}))
        for tt in ("ON_TIMER", "OFF_TIMER"):
            out.append((t, "set_quick_timer", [E("AcTimerType", tt), {"time": [rng.randrange(24), rng.randrange(60)]}], {}))
            out.append((t, "set_quick_timer", [E("AcTimerType", tt), {"seconds": rng.randrange(0, 200000)}], {}))
            out.append((t, "clear_quick_timer", [E("AcTimerType", tt)], {}))
        for zn in a["zones"]:
            t = ("zone", zn, a["n"])
            for ps in ("OFF", "ON", "TURBO"):
                out.append((t, "set_power", [E("ZonePowerState", ps)], {}))
            for d in (10, 35, rng.randrange(10, 36)):
                out.append((t, "set_target_temperature", [{"twentieths": 20 * d}], {}))
            for d in (0, 100, -1, 101, rng.randrange(101)):
                out.append((t, "set_damper_percentage", [d], {}))
    out.append((("airtouch", 0, 0), "check_for_updates", [], {}))
    return out


def main():
    out = sys.argv[1]
    seed = int(sys.argv[2]) if len(sys.argv) > 2 else 1
    n = int(sys.argv[3]) if len(sys.argv) > 3 else 20
    pairs = []
    for i in range(n):
        rng = random.Random(seed * 7919 + i)
        neu = neutral(rng)
        calls = common_calls(neu, rng)
        pair = {}
        for proto in ("at4", "at5"):
            inst = concrete(proto, neu)
            pair[proto] = G.run_case(proto, inst, G.answers(inst), calls, seed * 7919 + i)
        pairs.append(pair)
    json.dump(pairs, open(out, "w"))
    print("pairs", len(pairs), "calls per side", sum(len(p["at4"]["calls"]) for p in pairs))


if __name__ == "__main__":
    main()
