#!/bin/sh
# Dev aid for spec/ApiModel.tla: generate cases with the real client, judge them with ApiModel (TLC),
# list what differs; then the cross-generation pairs (section 3) and the totality sweep.
# usage: run.sh [SEED] [N_CASES]   (scratch in $W; NOGEN=1 re-uses the cases of the last run)
W=${W:-/tmp/apidev}
mkdir -p "$W/meta"
D=$(dirname "$(readlink -f "$0")")
SEED=${1:-1}
N=${2:-40}
if [ -z "$NOGEN" ]; then
  /venv/bin/python "$D/gen_cases.py" "$W/cases.json" "$SEED" "$N" || exit 1
  (cd "$D" && /venv/bin/python gen_pairs.py "$W/pairs.json" "$SEED" "$(( (N + 1) / 2 ))") || exit 1
  /venv/bin/python -c "import json,sys; json.dump(json.load(open('$W/cases.json'))[:16], open('$W/cases_small.json','w'))"
fi
cp /verif/spec/ApiModel.tla /verif/spec/WireMatch.tla /verif/spec/WireMsg.tla /verif/spec/AT4Msg.tla \
   /verif/spec/AT5Msg.tla "$D"/*.tla "$D"/*.cfg "$W/" || exit 1
cd "$W" || exit 1
t() { tlc -workers 4 -metadir "$W/meta/$1" -noGenerateSpecTE -config "$1.cfg" "$1.tla" > "$W/$1.log" 2>&1
      grep -n "rror\|^<<" "$W/$1.log" | head -20; }
CASES="$W/cases.json" OUT="$W/out.json" t Dev
/venv/bin/python "$D/compare.py" "$W/cases.json" "$W/out.json"
CASES="$W/pairs.json" OUT="$W/pairs_out.json" t Pairs
/venv/bin/python "$D/pairs_compare.py" "$W/pairs_out.json"
CASES="$W/cases_small.json" t Totality
