#!/bin/sh
# Dev aid: generate cases with the real client, judge them with ApiModel (TLC), list what differs.
# usage: run.sh [SEED] [N_CASES]   (scratch in $W; NOGEN=1 re-uses the cases of the last run)
W=${W:-/tmp/apidev}
mkdir -p "$W/meta"
D=$(dirname "$(readlink -f "$0")")
[ -n "$NOGEN" ] || /venv/bin/python "$D/gen_cases.py" "$W/cases.json" "${1:-1}" "${2:-40}" || exit 1
cp /verif/spec/ApiModel.tla /verif/spec/WireMatch.tla /verif/spec/WireMsg.tla /verif/spec/AT4Msg.tla \
   /verif/spec/AT5Msg.tla "$D/Dev.tla" "$D/Dev.cfg" "$W/" || exit 1
cd "$W" && CASES="$W/cases.json" OUT="$W/out.json" \
  tlc -workers 4 -metadir "$W/meta/dev" -noGenerateSpecTE -config Dev.cfg Dev.tla > "$W/tlc.log" 2>&1
grep -n "Error\|error\|\"cases\"" "$W/tlc.log" | head -20
/venv/bin/python "$D/compare.py" "$W/cases.json" "$W/out.json"
