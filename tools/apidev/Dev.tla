-------------------------------- MODULE Dev --------------------------------
(* Dev aid for spec/ApiModel.tla: for every case of IOEnv.CASES (see gen_cases.py) build the entity   *)
(* state from the reference readings (WireMsg!ReadMsg) of the console frames the client consumed,     *)
(* evaluate ZoneSnap / AcSnap against the observed snapshot (AttrOK) and Expect against every call     *)
(* (ExpectOK on the readings of the frames it transmitted); write the mismatches to IOEnv.OUT.         *)
EXTENDS ApiModel, WireMsg, Json, IOUtils

Cases == JsonDeserialize(IOEnv.CASES)

\* ---- a minimal monitor: the latest report per entity --------------------------------------------
Unwrap(r) == IF IsWrapper(r.k) THEN r.sub_message ELSE r

Readings(c) == LET fs == SelectSeq(c.frames, LAMBDA f : f.to = 176)      \* addressed to the client
               IN [i \in 1..Len(fs) |-> Unwrap(ReadMsg(c.proto, fs[i].type, fs[i].payload))]

RECURSIVE Cat(_, _, _)
\* concatenation of field fld of every reading of kind kind
Cat(rs, kind, fld) ==
  IF rs = <<>> THEN <<>>
  ELSE (IF Eq(Head(rs).k, kind) THEN Head(rs)[fld] ELSE <<>>) \o Cat(Tail(rs), kind, fld)

LastWhere(s, P(_)) == LET hits == SelectSeq(s, P) IN IF hits = <<>> THEN <<>> ELSE hits[Len(hits)]

ErrRecs(rs) == SelectSeq(rs, LAMBDA r : Eq(r.k, "AcErrorInformationMessage"))

AcStateOf(c, rs, n, zoneIds) ==
  LET e == LastWhere(ErrRecs(rs), LAMBDA r : r.ac_number = n) IN
  [ability |-> LastWhere(Cat(rs, "AcAbilityMessage", "ac_abilities"), LAMBDA r : r.ac_number = n),
   status  |-> LastWhere(Cat(rs, "AcStatusMessage", "ac_status"), LAMBDA r : r.ac_number = n),
   timer   |-> LastWhere(Cat(rs, "AcTimerStatusMessage", "ac_timer_status"), LAMBDA r : r.ac_number = n),
   err     |-> IF Absent(e) THEN <<>> ELSE e.error_info,
   zones   |-> zoneIds]

ZoneStateOf(c, rs, n) ==
  LET names == IF c.proto = "at4" THEN Cat(rs, "GroupNamesMessage", "group_names")
               ELSE Cat(rs, "ZoneNamesMessage", "zone_names")
      nm    == LastWhere(names, LAMBDA p : p[1] = n)
      st    == IF c.proto = "at4"
               THEN LastWhere(Cat(rs, "GroupStatusMessage", "groups"), LAMBDA r : r.group_number = n)
               ELSE LastWhere(Cat(rs, "ZoneStatusMessage", "zones"), LAMBDA r : r.zone_number = n)
  IN [id |-> n, name |-> IF Absent(nm) THEN <<>> ELSE nm[2], status |-> st]

\* ---- snapshots -------------------------------------------------------------------------------------
ZoneAttrs == <<"zone_id", "name", "supported_power_states", "power_state", "control_method", "has_temp_sensor",
               "sensor_battery_status", "current_temperature", "target_temperature", "target_temperature_resolution",
               "current_damper_percentage", "spill_active">>
AcAttrs == <<"ac_id", "name", "supported_power_controls", "supported_modes", "supported_fan_speeds", "power_state",
             "selected_mode", "active_mode", "selected_fan_speed", "active_fan_speed", "current_temperature",
             "target_temperature", "target_temperature_resolution", "min_target_temperature",
             "max_target_temperature", "spill_state", "on_timer", "off_timer", "error_info">>

SnapVerdicts(ci) ==
  LET c  == Cases[ci]
      rs == Readings(c)
  IN [i \in 1..Len(c.model) |->
        LET oa  == c.model[i]
            n   == oa.ac_id.v
            zid == [j \in 1..Len(oa.zones) |-> oa.zones[j].zone_id.v]
            a   == AcStateOf(c, rs, n, zid)
            zst == [j \in 1..Len(zid) |-> ZoneStateOf(c, rs, zid[j])]
            zs  == [j \in 1..Len(zid) |-> ZoneSnap(c.proto, zst[j])]
            ea  == AcSnap(c.proto, a, zs)
        IN [ac |-> n, bad |-> SelectSeq(AcAttrs, LAMBDA g : ~AttrOK(ea[g], oa[g])), exp |-> ea, state |-> a,
            nattrs |-> Len(SelectSeq(AcAttrs, LAMBDA g : ~Eq(ea[g], "ANY"))),
            zones |-> [j \in 1..Len(zid) |->
                         [zone |-> zid[j], bad |-> SelectSeq(ZoneAttrs, LAMBDA g : ~AttrOK(zs[j][g], oa.zones[j][g])),
                          nattrs |-> Len(SelectSeq(ZoneAttrs, LAMBDA g : ~Eq(zs[j][g], "ANY"))),
                          exp |-> zs[j], state |-> zst[j]]]]]

\* ---- calls -----------------------------------------------------------------------------------------
CallVerdict(ci, k) ==
  LET c    == Cases[ci]
      rs   == Readings(c)
      oc   == c.calls[k]
      call == oc.call
      a    == IF call.tk = "airtouch" THEN <<>> ELSE AcStateOf(c, rs, call.owner, <<>>)
      z    == IF call.tk = "zone" THEN ZoneStateOf(c, rs, call.tn) ELSE <<>>
      exp  == Expect(c.proto, call, a, z)
      obs  == [i \in 1..Len(oc.frames) |-> ReadMsg(c.proto, oc.frames[i].type, oc.frames[i].payload)]
      ok   == /\ oc.res \in {"ok", "ValueError"}
              /\ ExpectOK(exp, oc.res = "ValueError", obs)
              /\ \A i \in 1..Len(oc.policies) : Eq(oc.policies[i], PolicyOf(exp.policy))   \* C02 policy part
              /\ \A i \in 1..Len(oc.frames) :          \* C04: 0x80 (0x90 extended) from 0xB0
                   oc.frames[i].from = 176 /\ oc.frames[i].to = (IF oc.frames[i].type = 31 THEN 144 ELSE 128)
  IN [ok |-> ok, k |-> k, exp |-> exp, obs |-> obs, a |-> a, z |-> z]

Out == [ci \in 1..Len(Cases) |->
          [snap |-> SnapVerdicts(ci), calls |-> [k \in 1..Len(Cases[ci].calls) |-> CallVerdict(ci, k)]]]

ASSUME JsonSerialize(IOEnv.OUT, Out)
ASSUME PrintT(<<"cases", Len(Cases)>>)
=============================================================================
