"""Dev aid: list what Pairs.tla found different between the two generations.  usage: pairs_compare.py OUT.json"""
import collections
import json
import sys

out = json.load(open(sys.argv[1]))
cnt = collections.Counter()
ex = {}
na = nz = nc = 0
for p in out:
    if p["nacs"][0] != p["nacs"][1]:
        cnt[("structure", "number of ACs")] += 1
    for a in p["acs"]:
        na += 1
        for f in a["bad"]:
            cnt[("ac", f)] += 1
            ex.setdefault(("ac", f), (a["x"].get(f), a["y"].get(f)))
        for z in a["zones"]:
            nz += 1
            for f in z["bad"]:
                cnt[("zone", f)] += 1
                ex.setdefault(("zone", f), (z["x"].get(f), z["y"].get(f)))
    for c in p["calls"]:
        nc += 1
        if not c["ok"]:
            k = ("call", c["call"]["tk"], c["call"]["method"])
            cnt[k] += 1
            ex.setdefault(k, (c["call"]["args"], c["res"], c["a4"], c["a5"]))
print(f"pairs: {len(out)} installations, {na} AC snapshots, {nz} zone snapshots, {nc} calls compared across generations")
if not cnt:
    print("no differences")
for k, v in cnt.items():
    print("==", k, v, json.dumps(ex.get(k))[:900])
