import re, sys, zlib
data = open(sys.argv[1],'rb').read()
pages=[]
for m in re.finditer(rb'stream\r?\n', data):
    s = m.end(); e = data.find(b'endstream', s); raw = data[s:e]
    try: dec = zlib.decompress(raw)
    except Exception:
        try: dec = zlib.decompressobj().decompress(raw)
        except Exception: continue
    if b'BT' in dec or b'Tm' in dec:
        pages.append(dec)
def unesc(b):
    b = re.sub(rb'\\([0-7]{1,3})', lambda m: bytes([int(m.group(1),8)&255]), b)
    b = b.replace(rb'\(',b'(').replace(rb'\)',b')').replace(rb'\\',b'\\')
    return b.decode('cp1252','replace')
for pi,p in enumerate(pages):
    items=[]
    x=y=0
    for m in re.finditer(rb'(-?[\d.]+) (-?[\d.]+) (-?[\d.]+) (-?[\d.]+) (-?[\d.]+) (-?[\d.]+) Tm|\[((?:[^\]\\]|\\.)*)\]\s*TJ|\(((?:[^)\\]|\\.)*)\)\s*Tj', p):
        if m.group(1):
            x=float(m.group(5)); y=float(m.group(6))
        elif m.group(7) is not None:
            s=''.join(unesc(t) for t in re.findall(rb'\(((?:[^)\\]|\\.)*)\)', m.group(7)))
            items.append((y,x,s))
        else:
            items.append((y,x,unesc(m.group(8))))
    if not items: continue
    print(f'\n===== PAGE-STREAM {pi} =====')
    # group by y
    items.sort(key=lambda t:(-round(t[0]),t[1]))
    cury=None; line=[]
    for y,x,s in items:
        ry=round(y)
        if cury is None or abs(ry-cury)>2:
            if line: print(''.join(line))
            line=[]; cury=ry; lastx=None
        line.append(s if not line else ('' if s.startswith(' ') or line[-1].endswith(' ') else '')+s)
    if line: print(''.join(line))
