"""Virtual-time asyncio loop and simulated network.

The loop is stepped from OUTSIDE (one `_run_once()` per iteration); the clock only moves when the
driver says so.  Real asyncio.StreamReader / StreamReaderProtocol / StreamWriter run on top of a
fake transport, so all stream semantics (drain, wait_closed, readexactly, EOF) are CPython's own.

This module contains no protocol knowledge and no oracle.
"""
import asyncio
import threading
from asyncio import events


class _Sel:
    """Selector stub: never blocks, never reports I/O (I/O is injected by the driver)."""

    def select(self, timeout=None):
        return []

    def close(self):
        pass


class VLoop(asyncio.BaseEventLoop):
    def __init__(self):
        super().__init__()
        self._vt = 0.0
        self._selector = _Sel()
        self.net = None  # set by SimNet (datagram endpoints)

    def time(self):
        return self._vt

    def _process_events(self, event_list):
        pass

    def _write_to_self(self):
        pass

    async def create_datagram_endpoint(self, protocol_factory, local_addr=None, remote_addr=None, *,
                                       sock=None, **kw):
        return await self.net.create_datagram_endpoint(protocol_factory, sock=sock,
                                                      local_addr=local_addr)

    # -- driver interface -------------------------------------------------------------------
    def install(self):
        asyncio.set_event_loop(self)
        self._thread_id = threading.get_ident()
        events._set_running_loop(self)

    def uninstall(self):
        events._set_running_loop(None)
        self._thread_id = None
        asyncio.set_event_loop(None)

    def due(self):
        """True if a handle is ready or a live timer is due at the current instant."""
        if self._ready:
            return True
        end = self._vt + self._clock_resolution
        for h in self._scheduled:
            if not h._cancelled and h._when < end:
                return True
        return False

    def next_timer(self):
        live = [h._when for h in self._scheduled if not h._cancelled]
        return min(live) if live else None

    def live_timers(self):
        return [h for h in self._scheduled if not h._cancelled]


def link_error(kind, default):
    """The OSError a dying TCP link produces: resets and refusals (ConnectionError subclasses), a
    retransmission / keep-alive timeout (TimeoutError) or an unreachable host / network (plain OSError)."""
    import errno
    if kind == "timeout":
        return TimeoutError(errno.ETIMEDOUT, "Connection timed out")
    if kind == "unreach":
        return OSError(errno.EHOSTUNREACH, "No route to host")
    if kind == "netdown":
        return OSError(errno.ENETDOWN, "Network is down")
    if kind == "pipe":
        return BrokenPipeError(errno.EPIPE, "Broken pipe")
    return default


class FakeTransport(asyncio.Transport):
    """TCP transport double following _SelectorSocketTransport's observable behaviour."""

    def __init__(self, net, c):
        super().__init__()
        self.net = net
        self.loop = net.loop
        self.c = c
        self.protocol = None
        self._closing = False
        self.lost = False          # connection_lost scheduled/run (== _conn_lost > 0)
        self.lost_done = False
        self.half_open = False     # peer sent EOF, transport kept open for writing
        self.fault_in = 0          # the n-th next write() fails (0 = none armed)
        self.client_closed = False

    def set_protocol(self, p):
        self.protocol = p

    def get_protocol(self):
        return self.protocol

    def is_closing(self):
        return self._closing

    def get_extra_info(self, name, default=None):
        return default

    def can_write_eof(self):
        return False

    def get_write_buffer_size(self):
        return 0

    def write(self, data):
        data = bytes(data)
        if (self.lost or self._closing) and not getattr(self, "close_deferred", False):
            self.net.ev("write_dropped", c=self.c, b=list(data), why="closed")
            return
        if getattr(self, "close_deferred", False):
            # closing, waiting for the buffer to drain: the data is only queued behind it
            self.net.ev("write", c=self.c, b=list(data))
            return
        if self.fault_in:
            self.fault_in -= 1
            if self.fault_in == 0:
                self.net.ev("write_dropped", c=self.c, b=list(data), why="fault")
                self._fatal(link_error(getattr(self, "fault_exc", None), ConnectionResetError("injected write fault")), "write_fault")
                return
        # the send buffer fills up with this write (the peer stopped reading): asyncio transports call
        # pause_writing() from within write() - and this very write sits in the buffer, so the stall
        # is logged before it (a frame it belongs to has not left when the connection dies stalled)
        trigger = False
        if getattr(self, "pause_in", 0):
            self.pause_in -= 1
            trigger = self.pause_in == 0 and not self.lost and not getattr(self, "paused", False)
        if trigger:
            self.paused = True
            self.net.ev("paused", c=self.c)
        self.net.ev("write", c=self.c, b=list(data))
        if trigger:
            self.protocol.pause_writing()

    def _fatal(self, exc, why):
        if self.lost:
            return
        self.lost = True
        self._closing = True
        self._unstall()
        self.net.ev("lost", c=self.c, why=why)
        self.loop.call_soon(self._call_lost, exc)

    def _unstall(self):
        if getattr(self, "paused", False):   # the connection ends: nothing is stalled any more
            self.paused = False
            self.net.ev("resumed", c=self.c, why="ended")

    def _call_lost(self, exc):
        self.lost_done = True
        self.protocol.connection_lost(exc)

    def close(self):
        if self._closing:
            return
        self._closing = True
        self.lost = True
        self.client_closed = True
        self.net.ev("cclose", c=self.c)
        if getattr(self, "paused", False):
            # as a selector transport with unsent data: the close completes (connection_lost, hence
            # wait_closed()) only when the buffer has drained - when the stall ends
            self.close_deferred = True
            return
        self.loop.call_soon(self._call_lost, None)

    def finish_deferred_close(self):
        if getattr(self, "close_deferred", False):
            self.close_deferred = False
            self._unstall()
            self.loop.call_soon(self._call_lost, None)

    def abort(self):
        self.close()

    # -- peer side --------------------------------------------------------------------------
    def alive_for_peer(self):
        return not self.lost and not self.half_open

    def feed(self, data):
        self.protocol.data_received(bytes(data))

    def peer_eof(self):
        keep = self.protocol.eof_received()
        if keep:
            self.half_open = True
        else:
            self.close()

    def peer_reset(self, exc=None):
        self.finish_deferred_close()
        self._fatal(link_error(exc, ConnectionResetError("connection reset by peer")), "peer_reset")

    # the peer stops reading (half-open link, full send buffer): writes are still taken, drain() blocks
    def pause(self):
        if not self.lost and not getattr(self, "paused", False):
            self.paused = True
            self.net.ev("paused", c=self.c)
            self.protocol.pause_writing()

    def resume(self):
        self.finish_deferred_close()
        if not self.lost and getattr(self, "paused", False):
            self.paused = False
            self.net.ev("resumed", c=self.c)
            self.protocol.resume_writing()


class FakeDatagramTransport(asyncio.DatagramTransport):
    def __init__(self, net, u, protocol, port):
        super().__init__()
        self.net = net
        self.u = u
        self.protocol = protocol
        self.port = port
        self.closed = False

    def sendto(self, data, addr=None):
        if self.closed:
            self.net.ev("udp_send_closed", u=self.u, b=list(bytes(data)))
            return
        self.net.ev("udp_send", u=self.u, lport=self.port, host=str(addr[0]), port=int(addr[1]),
                    b=list(bytes(data)))

    def close(self):
        if self.closed:
            return
        self.closed = True
        self.net.ev("udp_close", u=self.u, lport=self.port)
        self.net.loop.call_soon(self.protocol.connection_lost, None)

    def abort(self):
        self.close()

    def is_closing(self):
        return self.closed

    def get_extra_info(self, name, default=None):
        return default


class FakeSock:
    """Stand-in for socket.socket used by the discovery code (bind + setsockopt only)."""

    def __init__(self, *a, **kw):
        self.port = 0

    def setsockopt(self, *a):
        pass

    def bind(self, addr):
        self.port = addr[1]

    def close(self):
        pass

    def setblocking(self, f):
        pass


class SimNet:
    def __init__(self, loop, ev):
        self.loop = loop
        loop.net = self
        self.ev = ev
        self.attempts = []      # per attempt index c: dict(fut, state, transport)
        self.writers = []       # keep StreamWriters alive (3.12 __del__ closes leaked transports)
        self.auto = None        # None = manual; "ok" / "refuse" resolve each attempt on the next turn
        self.udp = []

    # -- TCP --------------------------------------------------------------------------------
    async def open_connection(self, host=None, port=None, **kw):
        c = len(self.attempts)
        fut = self.loop.create_future()
        self.attempts.append({"fut": fut, "state": "pending", "tr": None})
        self.ev("conn_attempt", c=c, host=str(host), port=int(port))
        if self.auto:
            self.loop.call_soon(self.resolve_c, c, self.auto)
        try:
            return await fut
        except asyncio.CancelledError:
            # loop.create_connection cleans up after itself when it is cancelled: a connection that
            # was just made but not yet handed to the caller is closed, a pending one abandoned.
            a = self.attempts[c]
            if a["tr"] is not None:
                a["tr"].close()
            elif a["state"] == "pending":
                a["state"] = "cancelled"
                self.ev("conn_cancelled", c=c)
            raise

    def pending(self):
        return [c for c, a in enumerate(self.attempts) if a["state"] == "pending"]

    def resolve_c(self, c, how, exc=None, pause_in=0, fault_in=0):
        a = self.attempts[c]
        if a["state"] != "pending":
            return False
        fut = a["fut"]
        if fut.done():  # the awaiting task was cancelled
            a["state"] = "cancelled"
            self.ev("conn_cancelled", c=c)
            return True
        if how == "ok":
            tr = FakeTransport(self, c)
            tr.pause_in = pause_in
            tr.fault_in = fault_in       # the n-th write on the new connection fails (the peer accepted, then dropped it)
            reader = asyncio.StreamReader(loop=self.loop)
            proto = asyncio.StreamReaderProtocol(reader, loop=self.loop)
            tr.set_protocol(proto)
            proto.connection_made(tr)
            writer = asyncio.StreamWriter(tr, proto, reader, self.loop)
            self.writers.append(writer)
            a["state"] = "up"
            a["tr"] = tr
            self.ev("conn_ok", c=c)
            fut.set_result((reader, writer))
        else:
            a["state"] = "refused"
            self.ev("conn_refused", c=c)
            fut.set_exception(link_error(exc, ConnectionRefusedError("refused")))
        return True

    def transport(self, c):
        if c == "last":
            ups = [a["tr"] for a in self.attempts if a["tr"] is not None]
            return ups[-1] if ups else None
        if 0 <= c < len(self.attempts):
            return self.attempts[c]["tr"]
        return None

    def open_transports(self):
        return [a["tr"].c for a in self.attempts if a["tr"] is not None and not a["tr"]._closing]

    # -- UDP --------------------------------------------------------------------------------
    async def create_datagram_endpoint(self, protocol_factory, sock=None, local_addr=None):
        proto = protocol_factory()
        port = getattr(sock, "port", 0) if sock is not None else (local_addr[1] if local_addr else 0)
        tr = FakeDatagramTransport(self, len(self.udp), proto, port)
        self.udp.append(tr)
        self.ev("udp_open", u=tr.u, lport=port)
        # as BaseSelectorEventLoop / _SelectorDatagramTransport: connection_made and the waiter are
        # scheduled with call_soon, the caller resumes two turns of the loop later
        waiter = self.loop.create_future()
        self.loop.call_soon(proto.connection_made, tr)
        self.loop.call_soon(lambda: None if waiter.done() else waiter.set_result(None))
        await waiter
        return tr, proto
