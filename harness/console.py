"""Simulated console side: builds frames to feed.  Independent of the code under test (own CRC,
own framing).  Nothing here is an oracle: whatever bytes are fed, the TLA+ wire layer decides what
they mean."""


def crc16(data):
    r = 0xFFFF
    for b in data:
        r ^= b
        for _ in range(8):
            r = (r >> 1) ^ 0xA001 if r & 1 else r >> 1
    return r


def frame(proto, to, frm, pid, typ, payload):
    payload = bytes(payload)
    n = len(payload)
    body = bytes([to, frm, pid, typ, n >> 8, n & 255]) + payload
    c = crc16(body)
    crc = bytes([c >> 8, c & 255])
    if proto == "at4":
        return list(b"\x55\x55" + body + crc)
    d = 10 + n + 2
    outer = b"\x55\x55\x55\xab\x00\x00" + bytes([d >> 8, d & 255, d >> 8, d & 255])
    return list(outer + b"\x55\x55\x55\xaa" + body + crc)


def from_console(proto, typ, payload, pid=1, ext=None):
    if ext is None:
        ext = typ == 0x1F
    return frame(proto, 0xB0, 0x90 if ext else 0x80, pid, typ, payload)


# ---------------------------------------------------------------------------------------------
# payload builders of the simulated console, written from the vendor documents (refs/) and, for
# the timer messages, from the repository's docstrings.  Inputs are plain dicts; every field has
# a default so generators only state what they vary.

def _name(b, width):
    b = bytes(b)[:width]
    return b + b"\0" * (width - len(b))


def _temp11(raw):
    """11-bit temperature code in bits 15..5 of two bytes (AT4)."""
    return [(raw >> 3) & 0xFF, (raw << 5) & 0xFF]


def at4_group_status(groups):
    out = []
    for g in groups:
        t = g.get("temp_raw")
        b5, b6 = (0xFF, 0x00) if t is None else _temp11(t)
        out += [(g.get("power", 0) << 6) | (g["n"] & 0x3F),
                (g.get("method", 0) << 7) | (g.get("pct", 0) & 0x7F),
                (g.get("batt_low", 0) << 7) | (g.get("turbo", 0) << 6) | (g.get("sp", 0) & 0x3F),
                (g.get("sensor", 0) << 7), b5, b6 | (g.get("spill", 0) << 4)]
    return out


def at4_ac_status(acs):
    out = []
    for a in acs:
        t = a.get("temp_raw", 730)
        b5, b6 = (0xFF, 0x00) if t is None else _temp11(t)
        err = a.get("err", 0)
        out += [(a.get("power", 0) << 6) | (a["n"] & 0x3F), (a.get("mode", 0) << 4) | a.get("fan", 0),
                (a.get("spill", 0) << 7) | (a.get("timer", 0) << 6) | (a.get("sp", 24) & 0x3F), 0,
                b5, b6, err >> 8, err & 0xFF]
    return out


def ext(sub, data=()):
    return [0xFF, sub] + list(data)


def at4_ability(acs):
    out = []
    for a in acs:
        body = list(_name(a.get("name", b"AC"), 16)) + [a.get("start", 0), a.get("count", 0),
                                                         a.get("modes", 0x1F), a.get("fans", 0x7F),
                                                         a.get("min", 16), a.get("max", 30)]
        if a.get("groups") is not None:
            bm = 0
            for g in a["groups"]:
                bm |= 1 << g
            body += [bm & 0xFF, bm >> 8]
        out += [a["n"], len(body)] + body
    return ext(0x11, out)


def at4_group_names(names):
    out = []
    for n, name in names:
        out += [n] + list(_name(name, 8))
    return ext(0x12, out)


def version(update, text):
    text = bytes(text)
    return ext(0x30, [1 if update else 0, len(text)] + list(text))


def error_info(ac, text):
    text = bytes(text)
    return ext(0x10, [ac, len(text)] + list(text))


def _timer(t):
    """t = None (disabled) or (hour, minute)."""
    # repository docstrings / test vectors: bit 8 of the first byte set = timer DISABLED
    # t = None (disabled, 00:00) | (h, m) enabled | (h, m, "off") disabled with the time retained
    if t is None:
        return [0x80, 0]
    if len(t) == 3:
        return [0x80 | (t[0] & 0x1F), t[1] & 0x3F]
    return [t[0] & 0x1F, t[1] & 0x3F]


def at4_timer_status(timers):
    """timers: list of (on, off) for ACs 0..n-1 (the console always reports four)."""
    out = []
    for on, off in timers:
        out += _timer(on) + _timer(off) + [0, 0, 0, 0]
    return out


def c0(sub, records, rlen=None, normal=()):
    records = [list(r) for r in records]
    if rlen is None:
        rlen = len(records[0]) if records else 0
    out = [sub, 0, len(normal) >> 8, len(normal) & 255, rlen >> 8, rlen & 255, len(records) >> 8, len(records) & 255]
    out += list(normal)
    for r in records:
        out += (r + [0] * rlen)[:rlen]
    return out


def at5_zone_status(zones, rlen=8):
    recs = []
    for z in zones:
        t = z.get("temp_raw", 0x7FF)
        recs.append([(z.get("power", 0) << 6) | (z["n"] & 0x3F), (z.get("method", 0) << 7) | (z.get("pct", 0) & 0x7F),
                     z.get("sp", 0xFF), z.get("sensor", 0) << 7, (t >> 8) & 0x07, t & 0xFF,
                     (z.get("spill", 0) << 1) | z.get("batt_low", 0), 0])
    return c0(0x21, recs, rlen)


def at5_ac_status(acs, rlen=10):
    recs = []
    for a in acs:
        t = a.get("temp_raw", 730)
        err = a.get("err", 0)
        recs.append([(a.get("power", 0) << 4) | (a["n"] & 0x0F), (a.get("mode", 0) << 4) | a.get("fan", 0),
                     a.get("sp", 120),
                     (a.get("turbo", 0) << 3) | (a.get("bypass", 0) << 2) | (a.get("spill", 0) << 1) | a.get("timer", 0),
                     (t >> 8) & 0x07, t & 0xFF, err >> 8, err & 0xFF, 0, 0])
    return c0(0x23, recs, rlen)


def at5_timer_status(timers):
    """timers: list of (ac, on, off)."""
    return c0(0x33, [[ac] + _timer(on) + _timer(off) + [0, 0, 0, 0] for ac, on, off in timers], 9)


def at5_ability(acs):
    out = []
    for a in acs:
        body = list(_name(a.get("name", b"AC"), 16)) + [a.get("start", 0), a.get("count", 0),
                                                         a.get("modes", 0x1F), a.get("fans", 0xFF),
                                                         a.get("min_cool", 16), a.get("max_cool", 30),
                                                         a.get("min_heat", 17), a.get("max_heat", 31)]
        body += [0] * a.get("extra", 0)
        out += [a["n"], len(body)] + body
    return ext(0x11, out)


def at5_zone_names(names):
    out = []
    for n, name in names:
        name = bytes(name)
        out += [n, len(name)] + list(name)
    return ext(0x13, out)
