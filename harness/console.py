"""Simulated console side: builds frames to feed.  Independent of the code under test (own CRC,
own framing).  Nothing here is an oracle: whatever bytes are fed, the TLA+ wire layer decides what
they mean."""


def crc16(data):
    r = 0xFFFF
    for b in data:
        r ^= b
        for _ in range(8):
            r = (r >> 1) ^ 0xA001 if r & 1 else r >> 1
    return r


def frame(proto, to, frm, pid, typ, payload):
    payload = bytes(payload)
    n = len(payload)
    body = bytes([to, frm, pid, typ, n >> 8, n & 255]) + payload
    c = crc16(body)
    crc = bytes([c >> 8, c & 255])
    if proto == "at4":
        return list(b"\x55\x55" + body + crc)
    d = 10 + n + 2
    outer = b"\x55\x55\x55\xab\x00\x00" + bytes([d >> 8, d & 255, d >> 8, d & 255])
    return list(outer + b"\x55\x55\x55\xaa" + body + crc)


def from_console(proto, typ, payload, pid=1, ext=None):
    if ext is None:
        ext = typ == 0x1F
    return frame(proto, 0xB0, 0x90 if ext else 0x80, pid, typ, payload)
