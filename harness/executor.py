"""Dumb script executor / recorder: plays a straight-line script against the real pyairtouch code on
the virtual loop and records every externally observable event.  No oracle, no protocol knowledge.

Script: list of {"op": ..., ...}.  Trace: list of {"i", "t" (ms), "e", ...}.
"""
import asyncio
import datetime
import logging
import sys

from . import project as P
from .vloop import FakeSock, SimNet, VLoop

MAX_ITERS = 20000


class MachineryError(Exception):
    pass


class InjectedSubscriberFailure(Exception):
    """Raised by a script-installed subscriber that the script marked as raising."""


class _LogTap(logging.Handler):
    def __init__(self, world):
        super().__init__(level=logging.DEBUG)
        self.world = world

    def emit(self, record):
        try:
            msg = record.getMessage()
        except Exception:
            msg = str(record.msg)
        if "Unhandled exception in background task" in msg:
            exc = record.exc_info[1] if record.exc_info else None
            self.world.ev("unhandled", source="background_task", exc=type(exc).__name__ if exc else "?")
        elif record.levelno >= logging.WARNING and msg.startswith("Dropped message"):
            self.world.ev("log_dropped", reason=msg.split("(")[1].split(")")[0] if "(" in msg else "?")


def ms(t):
    r = round(t * 1000)
    if abs(t * 1000 - r) > 1e-6:
        raise MachineryError(f"virtual time {t} is off the millisecond grid")
    return r


class World:
    def __init__(self, proto="at4", target="socket", opts=None):
        self.proto = proto
        self.target = target
        self.opts = opts or {}
        self.trace = []
        self.loop = VLoop()
        self.loop.install()
        self.loop.set_exception_handler(self._loop_exc)
        self.net = SimNet(self.loop, self.ev)
        self._orig_open = asyncio.open_connection
        asyncio.open_connection = self.net.open_connection
        self._tap = _LogTap(self)
        lg = logging.getLogger("pyairtouch")
        lg.addHandler(self._tap)
        lg.setLevel(logging.WARNING)
        lg.propagate = False
        self.objs = {}
        self.subs = {}       # who -> subscriber callable
        self.blockers = {}   # who -> asyncio.Event
        self.calls = {}
        self.iters = 0
        self._setup()

    # -- recording --------------------------------------------------------------------------
    def ev(self, e, **kw):
        d = {"i": len(self.trace), "t": ms(self.loop.time()), "e": e}
        d.update(kw)
        self.trace.append(d)

    def _loop_exc(self, loop, ctx):
        exc = ctx.get("exception")
        self.ev("unhandled", source="loop", exc=type(exc).__name__ if exc else "?",
                msg=list(str(ctx.get("message", ""))[:60].encode("ascii", "replace")))

    # -- construction -----------------------------------------------------------------------
    def _setup(self):
        import pyairtouch.comms.socket as S
        self.S = S
        if self.target == "socket":
            reg = self._registry(fresh=self.opts.get("fresh_registry", True))
            s = S.AirTouchSocket(self.loop, "console", 9004 if self.proto == "at4" else 9005, reg)
            self.objs["socket"] = s
        elif self.target == "client":
            import pyairtouch
            import pyairtouch.api as api
            model = api.AirTouchModel.AIRTOUCH_4 if self.proto == "at4" else api.AirTouchModel.AIRTOUCH_5
            self._tap_sockets()
            at = pyairtouch.connect(model, "console", 9004 if self.proto == "at4" else 9005)
            self.objs["airtouch"] = at
            self.objs["socket"] = self.sockets[-1]      # the socket the client built for itself (public class, no private attribute)
        elif self.target == "heartbeat":
            import pyairtouch.comms.heartbeat as HB
            reg = self._registry(fresh=True)
            s = S.AirTouchSocket(self.loop, "console", 9004 if self.proto == "at4" else 9005, reg)
            self.objs["socket"] = s
            o = self.opts
            msg = P.build(self.proto, o["hb_message"])
            match_kind = o.get("hb_match", "ConsoleVersionMessage")

            def match(m):
                sub = getattr(m, "sub_message", None)
                return type(sub).__name__ == match_kind

            cfg = HB.HeartbeatConfig(message=msg, response_match=match,
                                     interval=o["interval_ms"] / 1000, timeout=o["timeout_ms"] / 1000)
            self.objs["heartbeat"] = HB.HeartbeatManager(self.loop, s, cfg)
        elif self.target == "discover":
            import pyairtouch.comms.discovery as D
            self._orig_sock = D.socket
            fake = type(sys)("fake_socket")
            for n in ("AF_INET", "SOCK_DGRAM", "IPPROTO_UDP", "SOL_SOCKET", "SO_BROADCAST"):
                setattr(fake, n, getattr(self._orig_sock, n))
            fake.socket = FakeSock
            D.socket = fake
            self._D = D
            self._tap_sockets()
        else:
            raise MachineryError(f"unknown target {self.target}")

    def _tap_sockets(self):
        """Remember every AirTouchSocket that gets constructed (the class and its port attribute are public)."""
        S = self.S
        self.sockets = []
        if getattr(S.AirTouchSocket, "_verif_tapped", False):
            S.AirTouchSocket._verif_sink = self.sockets
            return
        orig = S.AirTouchSocket.__init__
        world_sink = self.sockets

        def init(this, *a, **kw):
            orig(this, *a, **kw)
            S.AirTouchSocket._verif_sink.append(this)
        S.AirTouchSocket._verif_sink = world_sink
        S.AirTouchSocket.__init__ = init
        S.AirTouchSocket._verif_tapped = True

    def _registry(self, fresh):
        import importlib
        mod = importlib.import_module(f"pyairtouch.{self.proto}.comms.registry")
        reg = mod.INSTANCE
        if fresh:
            reg.header_factory = mod.HeaderFactory()
        return reg

    # -- stepping ---------------------------------------------------------------------------
    def step(self, k=1):
        n = 0
        for _ in range(k):
            if not self.loop.due():
                break
            self.loop._run_once()
            n += 1
            self.iters += 1
            if self.iters > MAX_ITERS:
                raise MachineryError("iteration budget exceeded (livelock?)")
        return n

    def quiesce(self):
        n = 0
        while self.loop.due():
            self.loop._run_once()
            n += 1
            self.iters += 1
            if n > 5000 or self.iters > MAX_ITERS:
                self.ev("livelock", n=n)
                raise MachineryError("no quiescence after 5000 iterations")
        self.ev("quiesce", n=n)
        return n

    def advance_to(self, t_ms, hold=False):
        """Run the clock to t_ms, firing the timers on the way.  hold: a timer due at exactly t_ms is
        NOT fired yet (the next script op happens at that very instant, before the loop turns)."""
        target = t_ms / 1000
        if target < self.loop._vt:
            raise MachineryError("time cannot go backwards")
        self.quiesce()
        while True:
            nt = self.loop.next_timer()
            if nt is None or nt > target or (hold and nt >= target - 1e-9):
                break
            if nt > self.loop._vt:
                self.loop._vt = nt
                self.ev("advance", to=ms(nt), timer=True)
            self.quiesce()
        if target > self.loop._vt:
            self.loop._vt = target
        self.ev("advance", to=t_ms, timer=False)

    # -- subscribers ------------------------------------------------------------------------
    def _mk_sub(self, who, kind, raises=False, blocks=False, hops=0, sends=None, once=False, adds=False):
        w = self
        counter = {"n": 0}
        fired = {"n": 0}

        def from_callback():
            """What user callbacks commonly do: a one-shot subscriber removes itself, a subscriber
            registers a further one on the same entity - synchronously, inside the callback."""
            fired["n"] += 1
            if fired["n"] > 1:
                return
            regs = list(getattr(w, "regs", {}).get(who, []))
            if once:
                for tgt, k in regs:
                    w.op_unsub({"who": who, "kind": k, "target": tgt, "in_cb": True})
            if adds:
                for tgt, k in regs:
                    w.op_sub({"who": who + "+", "kind": k, "target": tgt, "in_cb": True})

        def announce_send():
            """Logged when the subscriber coroutine is CREATED (the socket builds its callback list
            synchronously): the loop runs tasks in creation order, so this is the submission order."""
            counter["n"] += 1
            cid = f"{who}#{counter['n']}"
            d = dict(sends["msg"])
            if "ac_number" in d:
                d["ac_number"] = counter["n"] % 4
            msg = P.build(w.proto, d)
            pol = w._arg(sends["policy"])
            w.ev("call", id=cid, method="send", desc=P.project(msg), retries=int(pol.max_retries), life=ms(pol.max_lifetime),
                 by_subscriber=who)
            return cid, msg, pol

        async def send_on_connect(cid, msg, pol):
            try:
                await w.objs["socket"].send(msg, pol)
                w.ev("ret", id=cid, res="ok", val=[])
            except Exception as ex:
                w.ev("ret", id=cid, res=type(ex).__name__, val=[])

        async def behave():
            for _ in range(hops):
                await asyncio.sleep(0)
            if blocks:
                evt = w.blockers.setdefault(who, asyncio.Event())
                await evt.wait()
                w.ev("sub_released", who=who)
            if raises:
                w.ev("sub_raise", who=who)
                raise InjectedSubscriberFailure("subscriber failure injected by script")

        if kind == "message":
            def sub(hdr, msg):
                # logged when the socket CREATES the callback coroutines (it builds the whole list before it
                # awaits any): the instant the frame is handed to the subscribers, before any of them reacts
                try:
                    w.ev("deliver", who=who, hdr=P.project(hdr), msg=P.project(msg))
                except P.ShapeError as ex:
                    w.ev("deliver", who=who, hdr="shape_error", msg=list(str(ex)[:80].encode("ascii", "replace")))
                return behave()
        elif kind == "connection":
            def sub(*, connected):
                w.ev("notify", who=who, connected=bool(connected))
                pending = announce_send() if (sends and connected and not sends.get("only_on_disconnect")) else None
                burst = int(sends.get("on_disconnect_n", 0)) if (sends and not connected) else 0

                async def run():
                    if pending:
                        await send_on_connect(*pending)
                    for _ in range(burst):       # an application that reacts to the loss of the link by queueing commands
                        await send_on_connect(*announce_send())
                    await behave()
                return run()
        else:  # update subscribers: AirTouch (str id), AC (int), zone (int)
            async def sub(ident):
                w.ev("cb", who=who, kind=kind, id=P.project(ident))
                if once or adds:
                    from_callback()
                await behave()
        return sub

    # -- script ops -------------------------------------------------------------------------
    def run(self, script):
        try:
            for op in script:
                self.do(op)
        finally:
            pass
        return self.trace

    def do(self, op):
        o = op["op"]
        fn = getattr(self, "op_" + o, None)
        if fn is None:
            raise MachineryError(f"unknown op {o}")
        fn(op)

    def op_step(self, op):
        n = self.step(op.get("k", 1))
        self.ev("stepped", k=op.get("k", 1), n=n)

    def op_quiesce(self, op):
        self.quiesce()

    def op_advance(self, op):
        if "to" in op:
            self.advance_to(op["to"], hold=bool(op.get("hold")))
        else:
            self.advance_to(ms(self.loop.time()) + op["by"], hold=bool(op.get("hold")))

    def op_auto(self, op):
        self.net.auto = op.get("how") or None
        self.ev("auto", how=op.get("how") or "manual")

    def op_resolve(self, op):
        pend = self.net.pending()
        c = op.get("c", pend[0] if pend else None)
        if c is None or c not in pend:
            self.ev("skipped", what="resolve")
            return
        self.net.resolve_c(c, op["how"], op.get("exc"), op.get("pause_in", 0), op.get("fault_in", 0))

    def op_resolve_all(self, op):
        pend = self.net.pending()
        for c in pend:
            self.net.resolve_c(c, op["how"], op.get("exc"))
        self.ev("resolved_all", n=len(pend), how=op["how"])

    def _tr(self, op):
        return self.net.transport(op.get("c", "last"))

    def op_feed(self, op):
        tr = self._tr(op)
        if tr is None or not tr.alive_for_peer():
            self.ev("skipped", what="feed")
            return
        self.ev("feed", c=tr.c, b=list(op["b"]), tag=op.get("tag", ""))
        tr.feed(bytes(op["b"]))

    def op_peer_eof(self, op):
        tr = self._tr(op)
        if tr is None or not tr.alive_for_peer():
            self.ev("skipped", what="peer_eof")
            return
        self.ev("peer_eof", c=tr.c)
        tr.peer_eof()

    def op_peer_reset(self, op):
        tr = self._tr(op)
        # after the peer's EOF a selector transport has stopped reading: a later error of the link is
        # only ever noticed by a failing write (arm_fault), never spontaneously
        if tr is None or tr.lost or tr.half_open:
            self.ev("skipped", what="peer_reset")
            return
        self.ev("peer_reset", c=tr.c, exc=op.get("exc") or "reset")
        tr.peer_reset(op.get("exc"))

    def op_pause(self, op):
        tr = self._tr(op)
        if tr is None or tr.lost:
            self.ev("skipped", what="pause")
            return
        tr.pause()

    def op_arm_pause(self, op):
        tr = self._tr(op)
        if tr is None or tr.lost or getattr(tr, "paused", False):
            self.ev("skipped", what="arm_pause")
            return
        tr.pause_in = op.get("nth", 1)

    def op_resume(self, op):
        tr = self._tr(op)
        for a in self.net.attempts:  # closes that were waiting for a stalled buffer to drain complete
            if a["tr"] is not None:
                a["tr"].finish_deferred_close()
        if tr is not None:
            tr.pause_in = 0          # the console reads again: an armed stall is off as well
        if tr is None or tr.lost:
            self.ev("skipped", what="resume")
            return
        tr.resume()

    def op_arm_fault(self, op):
        tr = self._tr(op)
        if tr is None or tr.lost:
            self.ev("skipped", what="arm_fault")
            return
        tr.fault_in = op.get("nth", 1)
        tr.fault_exc = op.get("exc")
        self.ev("fault_armed", c=tr.c, nth=tr.fault_in)

    def op_sub(self, op):
        who = op["who"]
        kind = op["kind"]
        sub = self.subs.get(who)
        if sub is None:
            sub = self._mk_sub(who, kind, raises=op.get("raises", False), blocks=op.get("blocks", False),
                               hops=op.get("hops", 0), sends=op.get("sends"), once=op.get("once", False),
                               adds=op.get("adds", False))
            self.subs[who] = sub
        tgt = self._target(op.get("target", "socket"))
        if tgt is None:
            self.ev("skipped", what="sub")
            return
        meth = op.get("method") or {"message": "subscribe_on_message_received",
                                    "connection": "subscribe_on_connection_changed",
                                    "ac_state": "subscribe_ac_state"}.get(kind, "subscribe")
        getattr(tgt, meth)(sub)
        if not hasattr(self, "regs"):
            self.regs = {}
        self.regs.setdefault(who, []).append((op.get("target", "socket"), kind))
        self.ev("sub", who=who, kind=kind, target=op.get("target", "socket"), method=meth, in_cb=bool(op.get("in_cb")))

    def op_unsub(self, op):
        who = op["who"]
        sub = self.subs.get(who)
        tgt = self._target(op.get("target", "socket"))
        if sub is None or tgt is None:
            self.ev("skipped", what="unsub")
            return
        kind = op["kind"]
        meth = op.get("method") or {"message": "unsubcribe_on_message_received",
                                    "connection": "unsubscribe_on_connection_changed",
                                    "ac_state": "unsubscribe_ac_state"}.get(kind, "unsubscribe")
        getattr(tgt, meth)(sub)
        self.ev("unsub", who=who, kind=kind, target=op.get("target", "socket"), method=meth, in_cb=bool(op.get("in_cb")))

    def op_echo_written(self, op):
        """Feed back, on the current connection, exactly the bytes the client wrote since the last echo."""
        start = getattr(self, "_echo_from", 0)
        data = []
        for ev in self.trace[start:]:
            if ev["e"] == "write":
                data += ev["b"]
        self._echo_from = len(self.trace)
        tr = self.net.transport("last")
        if tr is None or not tr.alive_for_peer() or not data:
            self.ev("skipped", what="echo_written")
            return
        self.ev("feed", c=tr.c, b=data, tag="echo")
        tr.feed(bytes(data))

    def op_answer_errinfo(self, op):
        """A console that answers the error-information requests the client wrote since the last call
        (0x1F / 0xFF10 / ac) with the reply frame the script prepared for that AC; nothing otherwise."""
        start = getattr(self, "_err_from", 0)
        data = []
        for ev in self.trace[start:]:
            if ev["e"] == "write":
                data += ev["b"]
        self._err_from = len(self.trace)
        tr = self.net.transport("last")
        asked = []
        for i in range(len(data) - 5):
            if data[i:i + 5] == [0x1F, 0x00, 0x03, 0xFF, 0x10] and str(data[i + 5]) in op["replies"]:
                asked.append(data[i + 5])
        for ac in asked:
            if tr is None or not tr.alive_for_peer():
                self.ev("skipped", what="answer_errinfo")
                return
            fr = op["replies"][str(ac)]
            self.ev("feed", c=tr.c, b=list(fr), tag="error_info_reply")
            tr.feed(bytes(fr))
        self.ev("answered_errinfo", acs=asked)

    def op_mark(self, op):
        self.ev("mark", tag=op["tag"])

    def op_release(self, op):
        evt = self.blockers.setdefault(op["who"], asyncio.Event())
        evt.set()
        self.ev("release", who=op["who"])

    def _target(self, name):
        if name in self.objs:
            return self.objs[name]
        at = self.objs.get("airtouch")
        if at is None:
            return None
        kind, _, num = name.partition(":")
        num = int(num)
        if kind == "ac":
            for ac in at.air_conditioners:
                if ac.ac_id == num:
                    return ac
        elif kind == "zone":
            for ac in at.air_conditioners:
                for z in ac.zones:
                    if z.zone_id == num:
                        return z
        return None

    def _arg(self, a):
        """Script argument -> Python value."""
        if isinstance(a, dict):
            if "enum" in a:
                import pyairtouch.api as api
                return getattr(api, a["enum"])[a["name"]]
            if "f" in a:          # thousandths
                return a["f"] / 1000
            if "twentieths" in a:
                return a["twentieths"] / 20
            if "time" in a:
                return datetime.time(hour=a["time"][0], minute=a["time"][1])
            if "seconds" in a:
                return datetime.timedelta(seconds=a["seconds"])
            if "msg" in a:
                return P.build(self.proto, a["msg"])
            if "decoded" in a:      # the object the real decoder makes of a console payload
                from . import codec
                d = a["decoded"]
                pl = bytes(d["payload"])
                res = codec.registry(self.proto).get_decoder(d["type"]).decode(pl, codec._hdr(self.proto, d["type"], len(pl)))
                res.assert_complete()
                return res.message
            if "policy" in a:
                return self.S.RetryPolicy(max_retries=a["policy"]["retries"],
                                          max_lifetime=a["policy"]["lifetime_ms"] / 1000)
            if "const" in a:
                return getattr(self.S, a["const"])
            if "raw" in a:
                return a["raw"]
        return a

    def op_call(self, op):
        """Start a coroutine method as a task; its completion is logged as `ret`."""
        cid = op["id"]
        tgt = self._target(op.get("target", "socket")) if op.get("target") != "factory" else "factory"
        if tgt is None:
            self.ev("call", id=cid, target=op.get("target", "socket"), method=op["method"], skipped=True)
            self.ev("ret", id=cid, res="no_target", val=[])
            return
        log = {k: v for k, v in op.items() if k not in ("op",)}
        try:
            args = [self._arg(a) for a in op.get("args", [])]
            kwargs = {k: self._arg(v) for k, v in op.get("kwargs", {}).items()}
        except Exception as ex:
            if any(isinstance(a, dict) and "decoded" in a for a in op.get("args", [])):
                self.ev("skipped", what="call", why=type(ex).__name__)   # the decoder rejected the payload
                return
            raise MachineryError(f"cannot build arguments of call {cid}: {ex!r}")
        if op["method"] == "send" and op.get("target", "socket") == "socket" and len(args) == 2:
            # what is being submitted, as the object itself projects, and its policy
            log["desc"] = P.project(args[0])
            log["retries"] = int(args[1].max_retries)
            log["life"] = ms(args[1].max_lifetime)
        self.ev("call", **log)
        try:
            if tgt == "factory":
                import pyairtouch
                coro = getattr(pyairtouch, op["method"])(*args, **kwargs)
            else:
                coro = getattr(tgt, op["method"])(*args, **kwargs)
        except Exception as ex:  # synchronous failure of the call itself
            self.ev("ret", id=cid, res=type(ex).__name__, val=[], sync=True)
            return
        if not asyncio.iscoroutine(coro):
            self.ev("ret", id=cid, res="ok", val=self._val(coro), sync=True)
            return
        task = self.loop.create_task(coro)
        self.calls[cid] = task

        def done(t, cid=cid):
            if t.cancelled():
                self.ev("ret", id=cid, res="cancelled", val=[])
            elif t.exception() is not None:
                self.ev("ret", id=cid, res=type(t.exception()).__name__, val=[])
            else:
                self.ev("ret", id=cid, res="ok", val=self._val(t.result()))

        task.add_done_callback(done)

    def op_cancel(self, op):
        """The application cancels one of its own calls still in progress (asyncio.timeout / wait_for
        around it): CancelledError at the await the call is suspended in."""
        t = self.calls.get(op["id"])
        if t is None or t.done():
            self.ev("skipped", what="cancel")
            return
        self.ev("cancel", id=op["id"])
        t.cancel()

    def op_call_seq(self, op):
        """One user coroutine that makes several calls one after the other WITHOUT yielding in between
        (`await s.close(); s.open_socket()`): call / ret are logged inline."""
        steps = []
        for c in op["calls"]:
            tgt = self._target(c.get("target", "socket"))
            if tgt is None:
                self.ev("skipped", what="call_seq")
                return
            steps.append((c, tgt, [self._arg(a) for a in c.get("args", [])]))

        async def seq():
            for c, tgt, args in steps:
                log = {k: v for k, v in c.items()}
                if c["method"] == "send" and c.get("target", "socket") == "socket" and len(args) == 2:
                    log["desc"] = P.project(args[0])
                    log["retries"] = int(args[1].max_retries)
                    log["life"] = ms(args[1].max_lifetime)
                self.ev("call", **log)
                try:
                    r = getattr(tgt, c["method"])(*args)
                    if asyncio.iscoroutine(r):
                        r = await r
                    self.ev("ret", id=c["id"], res="ok", val=self._val(r))
                except Exception as ex:
                    self.ev("ret", id=c["id"], res=type(ex).__name__, val=[])
        self.calls[steps[0][0]["id"]] = self.loop.create_task(seq())

    def _val(self, v):
        if self.target == "discover" and isinstance(v, list):
            out = []
            # clients are built one after the other, each with its own socket: the k-th client owns the k-th
            # socket created during the call
            made = self.sockets[-len(v):] if v else []
            for k, at in enumerate(v):
                out.append({"model": at.model.name, "host": P.text(at.host), "port": made[k].port if k < len(made) else -1,
                            "airtouch_id": P.text(at.airtouch_id), "serial": P.text(at.serial),
                            "name": P.text(at.name)})
            return out
        if v is None or isinstance(v, (bool, int)):
            return P.project(v)
        try:
            return P.project(v)
        except P.ShapeError:
            return "unprojectable"

    def op_datagram(self, op):
        tgt = [u for u in self.net.udp if u.port == op["lport"] and not u.closed]
        if not tgt:
            self.ev("skipped", what="datagram")
            return
        for u in tgt:
            self.ev("datagram", u=u.u, lport=u.port, b=list(op["b"]), src=op.get("src", "10.0.0.9"))
            try:
                u.protocol.datagram_received(bytes(op["b"]), (op.get("src", "10.0.0.9"), op.get("sport", u.port)))
            except Exception as ex:
                # as in _SelectorDatagramTransport._read_ready: an exception raised by the protocol's
                # datagram_received ends up in the loop's exception handler; the transport stays open
                self.loop.call_exception_handler({"message": "Exception in callback datagram_received", "exception": ex})

    def op_snapshot(self, op):
        from . import snapshot
        self.ev("snapshot", tag=op.get("tag", ""), model=snapshot.snapshot(self.objs.get("airtouch")))

    def op_state(self, op):
        """Cheap public socket state (is_open / is_connected) plus the network's view."""
        s = self.objs.get("socket")
        self.ev("state", is_open=bool(s.is_open), is_connected=bool(s.is_connected),
                open_conns=self.net.open_transports(), pending=self.net.pending())

    def op_residual(self, op):
        tasks = [t for t in asyncio.all_tasks(self.loop) if not t.done()]
        timers = self.loop.live_timers()
        self.ev("residual", tasks=len(tasks), timers=len(timers), ready=len(self.loop._ready),
                open_conns=self.net.open_transports(), pending=self.net.pending(),
                names=sorted(_coro_name(t) for t in tasks)[:12])

    # -- teardown ---------------------------------------------------------------------------
    def close(self):
        asyncio.open_connection = self._orig_open
        if self.target == "discover":
            self._D.socket = self._orig_sock
        logging.getLogger("pyairtouch").removeHandler(self._tap)
        # cancel what is left so that nothing leaks into the next world
        for t in asyncio.all_tasks(self.loop):
            t.cancel()
        for _ in range(50):
            if not self.loop._ready:
                break
            try:
                self.loop._run_once()
            except Exception:
                break
        self.loop.set_exception_handler(lambda l, c: None)
        self.loop.uninstall()
        try:
            self.loop.close()
        except Exception:
            pass


def _coro_name(t):
    c = t.get_coro()
    return getattr(c, "__qualname__", str(c))


def run_script(script, proto="at4", target="socket", opts=None):
    """Execute one script in a fresh world.  Returns (trace, error) — error is a machinery failure."""
    w = World(proto, target, opts)
    err = None
    try:
        w.run(script)
    except MachineryError as ex:
        err = f"machinery: {ex}"
    except P.ShapeError as ex:
        err = f"shape: {ex}"
    finally:
        tr = w.trace
        w.close()
    return tr, err
