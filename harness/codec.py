"""Direct calls of the public codec entry points of the code under test (no event loop): decode a
payload through the registry's decoder exactly as the socket's receive path does, compute / validate
a checksum.  Results are projections or the name of the exception raised; no oracle here."""
import importlib

from . import project as P

_REG = {}


def registry(proto):
    r = _REG.get(proto)
    if r is None:
        r = importlib.import_module(f"pyairtouch.{proto}.comms.registry").INSTANCE
        _REG[proto] = r
    return r


def _hdr(proto, typ, n, to=0xB0, frm=0x80):
    mod = importlib.import_module(f"pyairtouch.{proto}.comms.hdr")
    cls = mod.At4Header if proto == "at4" else mod.At5Header
    return cls(to_address=to, from_address=frm, packet_id=1, message_id=typ, message_length=n)


def decode(proto, typ, payload):
    """-> {"ok": True, "msg": projection} | {"ok": False, "exc": ExceptionClassName}"""
    payload = bytes(payload)
    reg = registry(proto)
    try:
        dec = reg.get_decoder(typ)
        res = dec.decode(payload, _hdr(proto, typ, len(payload)))
        res.assert_complete()
        msg = res.message
    except Exception as ex:  # any exception = the payload was rejected
        return {"ok": False, "exc": type(ex).__name__}
    try:
        return {"ok": True, "msg": P.project(msg)}
    except P.ShapeError as ex:
        return {"ok": False, "exc": "Unprojectable:" + str(ex)[:60]}


def crc(proto, data):
    reg = registry(proto)
    try:
        out = reg.checksum_calculator.calculate(bytes(data))
        return list(bytes(out))
    except Exception as ex:
        return {"exc": type(ex).__name__}


def crc_validate(proto, data, check):
    reg = registry(proto)
    try:
        return bool(reg.checksum_calculator.validate(bytes(data), bytes(check)))
    except Exception as ex:
        return {"exc": type(ex).__name__}
