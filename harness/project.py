"""Reflection between Python objects of pyairtouch and the JSON shapes the TLA+ side reads.

project(obj): Python object -> JSON value (type-uniform, TLC-friendly)
    dataclass      -> {"k": ClassName, field: ...}
    Enum           -> member name (string)
    bool / int     -> as is
    float          -> [thousandths]            (["inexact"] when not on the 1/1000 grid)
    None           -> []
    Optional field -> [] or [value]
    str            -> list of UTF-8 bytes
    bytes          -> list of ints
    list/tuple     -> list ; set -> sorted list
    dict           -> {EnumName: v} for Enum keys, else sorted list of [k, v]
    timedelta      -> {"k": "timedelta", "d": days, "s": seconds, "us": microseconds}
    time           -> {"k": "time", "h":, "m":, "s":}

build(proto, desc): the inverse for message objects, driven by dataclass type hints.
No protocol knowledge lives here: only shapes.
"""
import dataclasses
import datetime
import enum
import importlib
import inspect
import pkgutil
import types
import typing

INT_LIMIT = 2 ** 31


class ShapeError(Exception):
    pass


def _num(x):
    if isinstance(x, bool):
        return x
    if isinstance(x, int):
        if abs(x) >= INT_LIMIT:
            raise ShapeError(f"integer {x} exceeds TLC range")
        return x
    raise ShapeError(f"not a number: {x!r}")


def fl(x):
    """float -> thousandths (exact) or 'inexact'."""
    if x != x or x in (float("inf"), float("-inf")):
        return "inexact"
    r = round(x * 1000)
    if abs(x * 1000 - r) > 1e-6 or abs(r) >= INT_LIMIT:
        return "inexact"
    return r


def text(s):
    return list(s.encode("utf-8", "surrogateescape"))


def _is_optional(hint):
    origin = typing.get_origin(hint)
    if origin is typing.Union or origin is types.UnionType:
        args = typing.get_args(hint)
        return type(None) in args
    return False


_HINTS = {}


def hints(cls):
    h = _HINTS.get(cls)
    if h is None:
        try:
            h = typing.get_type_hints(cls)
        except Exception:
            h = {}
        _HINTS[cls] = h
    return h


def project(obj):
    if obj is None:
        return []
    if isinstance(obj, bool):
        return obj
    if isinstance(obj, enum.Enum):
        return obj.name
    if isinstance(obj, int):
        return _num(obj)
    if isinstance(obj, float):
        return [fl(obj)]
    if isinstance(obj, str):
        return text(obj)
    if isinstance(obj, (bytes, bytearray)):
        return list(bytes(obj))
    if isinstance(obj, datetime.timedelta):
        return {"k": "timedelta", "d": obj.days, "s": obj.seconds, "us": obj.microseconds}
    if isinstance(obj, datetime.time):
        return {"k": "time", "h": obj.hour, "m": obj.minute, "s": obj.second}
    if dataclasses.is_dataclass(obj) and not isinstance(obj, type):
        out = {"k": type(obj).__name__}
        h = hints(type(obj))
        for f in dataclasses.fields(obj):
            v = getattr(obj, f.name)
            p = project(v)
            if _is_optional(h.get(f.name)) and v is not None and not isinstance(v, float):
                p = [p]
            out[f.name] = p
        return out
    if isinstance(obj, dict):
        if obj and all(isinstance(k, enum.Enum) for k in obj):
            return {k.name: project(v) for k, v in obj.items()}
        if not obj:
            return []
        return [[project(k), project(v)] for k, v in sorted(obj.items(), key=lambda kv: kv[0])]
    if isinstance(obj, (set, frozenset)):
        return [project(v) for v in sorted(obj)]
    if isinstance(obj, (list, tuple)):
        return [project(v) for v in obj]
    raise ShapeError(f"cannot project {type(obj).__name__}: {obj!r}")


# ---------------------------------------------------------------------------------------------
# build: desc -> message object

_REG = {}


def registry(proto):
    reg = _REG.get(proto)
    if reg is None:
        reg = {}
        pkg = importlib.import_module(f"pyairtouch.{proto}.comms")
        for m in pkgutil.iter_modules(pkg.__path__):
            mod = importlib.import_module(pkg.__name__ + "." + m.name)
            for n, o in vars(mod).items():
                if inspect.isclass(o) and o.__module__ == mod.__name__ and dataclasses.is_dataclass(o):
                    reg.setdefault(n, o)
        import pyairtouch.comms as _c
        reg.setdefault("UnsupportedMessage", _c.UnsupportedMessage)
        _REG[proto] = reg
    return reg


def build(proto, desc, hint=None):
    origin = typing.get_origin(hint) if hint is not None else None
    args = typing.get_args(hint) if hint is not None else ()
    if origin is typing.Union or origin is types.UnionType:
        alts = [a for a in args if a is not type(None)]
        if desc == [] and type(None) in args:
            return None
        if len(alts) == 1:
            inner = desc
            if isinstance(desc, list) and len(desc) == 1 and not (alts[0] is float) \
                    and not _seq_hint(alts[0]) and alts[0] is not str:
                inner = desc[0]
            elif alts[0] is str and isinstance(desc, list) and len(desc) == 1 and isinstance(desc[0], list):
                inner = desc[0]          # Optional[str]: [[utf-8 bytes]]
            return build(proto, inner, alts[0])
        # several alternatives: tagged record, enum name, literal or int
        if type(None) in args and isinstance(desc, list) and len(desc) == 1:
            desc = desc[0]
        if isinstance(desc, dict) and "k" in desc:
            for a in alts:
                if inspect.isclass(a) and a.__name__ == desc["k"]:
                    if issubclass(a, enum.Enum):
                        return a[desc["v"]]
                    return build(proto, desc, a)
            raise ShapeError(f"no alternative {desc['_']} in {hint}")
        for a in alts:
            try:
                return build(proto, desc, a)
            except (ShapeError, KeyError, TypeError, ValueError):
                continue
        raise ShapeError(f"cannot build {desc!r} as {hint}")
    if origin is typing.Literal:
        s = bytes(desc).decode() if isinstance(desc, list) else desc
        if s in args:
            return s
        raise ShapeError(f"{desc!r} not in {hint}")
    if hint is float:
        if isinstance(desc, list) and len(desc) == 1:
            return desc[0] / 1000
        raise ShapeError(f"float expects [thousandths], got {desc!r}")
    if hint is bool:
        if isinstance(desc, bool):
            return desc
        raise ShapeError(f"bool expected, got {desc!r}")
    if hint is int:
        if isinstance(desc, int) and not isinstance(desc, bool):
            return desc
        raise ShapeError(f"int expected, got {desc!r}")
    if hint is str:
        return bytes(desc).decode("utf-8", "surrogateescape")
    if hint is bytes:
        return bytes(desc)
    if hint is datetime.timedelta:
        return datetime.timedelta(days=desc["d"], seconds=desc["s"], microseconds=desc["us"])
    if inspect.isclass(hint) and issubclass(hint, enum.Enum):
        return hint[desc]
    if origin in (list, tuple) or _seq_hint(hint):
        (t,) = args[:1] or (None,)
        return [build(proto, d, t) for d in desc]
    if origin in (set, frozenset) or (origin is not None and getattr(origin, "__name__", "") in ("Set", "AbstractSet")):
        (t,) = args[:1] or (None,)
        return {build(proto, d, t) for d in desc}
    if origin is not None and getattr(origin, "__name__", "") in ("Mapping", "dict", "MutableMapping"):
        kt, vt = args
        if isinstance(desc, dict):
            return {build(proto, k, kt): build(proto, v, vt) for k, v in desc.items()}
        return {build(proto, k, kt): build(proto, v, vt) for k, v in desc}
    if isinstance(desc, dict) and "k" in desc:
        cls = hint if (inspect.isclass(hint) and dataclasses.is_dataclass(hint)) else registry(proto)[desc["k"]]
        if desc["k"] != cls.__name__:
            cls = registry(proto)[desc["k"]]
        h = hints(cls)
        kw = {}
        for f in dataclasses.fields(cls):
            if f.name in desc:
                kw[f.name] = build(proto, desc[f.name], h.get(f.name))
        return cls(**kw)
    if hint is None or isinstance(hint, typing.TypeVar):
        if isinstance(desc, (bool, int)):
            return desc
        raise ShapeError(f"untyped value {desc!r}")
    raise ShapeError(f"cannot build {desc!r} as {hint}")


def _seq_hint(hint):
    origin = typing.get_origin(hint)
    return origin is not None and getattr(origin, "__name__", "") in ("Sequence", "list", "List", "Iterable")
