"""Projection of the whole public object model (every public property of AirTouch, each
AirConditioner, each Zone).  A getter that raises is recorded as {"raises": ExcName}."""
import pyairtouch.api as api

from . import project as P


def _get(obj, name, conv):
    try:
        v = getattr(obj, name)
    except Exception as ex:  # a getter that raises is an observation, not a harness failure
        return {"raises": type(ex).__name__}
    try:
        return {"v": conv(v)}
    except Exception as ex:
        return {"unprojectable": type(ex).__name__}


def _f(v):           # float getter (possibly int-valued) -> [thousandths]
    return [P.fl(float(v))]


def _of(v):          # Optional float
    return [] if v is None else [P.fl(float(v))]


def _enum(v):
    return v.name


def _enums(v):
    return [x.name for x in v]


def _txt(v):
    return P.text(v)


def _timer(ac, tt):
    try:
        v = ac.next_quick_timer(tt)
    except Exception as ex:
        return {"raises": type(ex).__name__}
    return {"v": [] if v is None else [[v.hour, v.minute]]}


def _err(v):
    if v is None:
        return []
    return [{"code": v.code, "description": [] if v.description is None else [P.text(v.description)]}]


def zone(z):
    return {
        "zone_id": _get(z, "zone_id", int),
        "name": _get(z, "name", _txt),
        "supported_power_states": _get(z, "supported_power_states", _enums),
        "power_state": _get(z, "power_state", _enum),
        "control_method": _get(z, "control_method", _enum),
        "has_temp_sensor": _get(z, "has_temp_sensor", bool),
        "sensor_battery_status": _get(z, "sensor_battery_status", _enum),
        "current_temperature": _get(z, "current_temperature", _of),
        "target_temperature": _get(z, "target_temperature", _of),
        "target_temperature_resolution": _get(z, "target_temperature_resolution", _f),
        "current_damper_percentage": _get(z, "current_damper_percentage", int),
        "spill_active": _get(z, "spill_active", bool),
    }


def ac(a):
    try:
        zs = [zone(z) for z in a.zones]
    except Exception as ex:
        zs = {"raises": type(ex).__name__}
    return {
        "ac_id": _get(a, "ac_id", int),
        "name": _get(a, "name", _txt),
        "supported_power_controls": _get(a, "supported_power_controls", _enums),
        "supported_modes": _get(a, "supported_modes", _enums),
        "supported_fan_speeds": _get(a, "supported_fan_speeds", _enums),
        "power_state": _get(a, "power_state", _enum),
        "selected_mode": _get(a, "selected_mode", _enum),
        "active_mode": _get(a, "active_mode", _enum),
        "selected_fan_speed": _get(a, "selected_fan_speed", _enum),
        "active_fan_speed": _get(a, "active_fan_speed", _enum),
        "current_temperature": _get(a, "current_temperature", _f),
        "target_temperature": _get(a, "target_temperature", _f),
        "target_temperature_resolution": _get(a, "target_temperature_resolution", _f),
        "min_target_temperature": _get(a, "min_target_temperature", _f),
        "max_target_temperature": _get(a, "max_target_temperature", _f),
        "spill_state": _get(a, "spill_state", _enum),
        "on_timer": _timer(a, api.AcTimerType.ON_TIMER),
        "off_timer": _timer(a, api.AcTimerType.OFF_TIMER),
        "error_info": _get(a, "error_info", _err),
        "zones": zs,
    }


def snapshot(at):
    if at is None:
        return {}
    try:
        acs = [ac(a) for a in at.air_conditioners]
    except Exception as ex:
        acs = {"raises": type(ex).__name__}
    return {
        "initialised": _get(at, "initialised", bool),
        "airtouch_id": _get(at, "airtouch_id", _txt),
        "serial": _get(at, "serial", _txt),
        "name": _get(at, "name", _txt),
        "host": _get(at, "host", _txt),
        "model": _get(at, "model", _enum),
        "update_available": _get(at, "update_available", bool),
        "console_versions": _get(at, "console_versions", lambda v: [P.text(x) for x in v]),
        "air_conditioners": acs,
    }
