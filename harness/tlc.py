"""Thin TLC driver: run a module+config from /verif/spec, parse statistics and PrintT tuples."""
import os
import re
import shutil
import subprocess
import tempfile
import time

SPEC_DIR = os.environ.get("VERIF_SPEC_DIR") or os.path.join(os.path.dirname(os.path.dirname(os.path.abspath(__file__))), "spec")
SCRATCH = os.path.join(os.path.dirname(os.path.dirname(os.path.abspath(__file__))), ".scratch")
JAR = "/opt/veriftools/tla/tla2tools.jar:/opt/veriftools/tla/CommunityModules-deps.jar"


class TlcFailure(Exception):
    pass


class TlcResult:
    def __init__(self, out, rc, wall):
        self.out = out
        self.rc = rc
        self.wall = wall
        m = re.search(r"(\d+) states generated, (\d+) distinct states found", out)
        self.generated = int(m.group(1)) if m else 0
        self.distinct = int(m.group(2)) if m else 0
        m = re.search(r"The depth of the complete state graph search is (\d+)", out)
        self.depth = int(m.group(1)) if m else 0
        self.invariant_violated = "is violated" in out and "Invariant" in out
        self.property_violated = "Temporal properties were violated" in out or "Action property" in out and "violated" in out
        self.error = bool(re.search(r"^Error:", out, re.M)) and not self.invariant_violated
        self.finished = "Model checking completed" in out or "Finished in" in out

    def prints(self, tag=None):
        """PrintT tuples of the form <<"TAG", ...>> (possibly pretty-printed over several lines)
        as Python lists (ints, strings, nested tuples, records as dicts)."""
        res = []
        out = self.out
        for m in re.finditer(r'^<<\s*"', out, re.M):
            try:
                v, _ = _pv(out, m.start())
            except Exception:
                continue
            if isinstance(v, list) and v and (tag is None or v[0] == tag):
                res.append(v)
        return res

    def violated_invariants(self):
        return re.findall(r"Invariant (\w+) is violated", self.out)


def parse_value(s):
    v, i = _pv(s, 0)
    return v


def _ws(s, i):
    while i < len(s) and s[i] in " \t\r\n":
        i += 1
    return i


def _pv(s, i):
    i = _ws(s, i)
    if s.startswith("<<", i):
        i += 2
        items = []
        i = _ws(s, i)
        if s.startswith(">>", i):
            return items, i + 2
        while True:
            v, i = _pv(s, i)
            items.append(v)
            i = _ws(s, i)
            if s.startswith(">>", i):
                return items, i + 2
            if s[i] != ",":
                raise ValueError(f"expected , at {i}")
            i += 1
    if s[i] == "{":
        i += 1
        items = []
        i = _ws(s, i)
        if s[i] == "}":
            return items, i + 1
        while True:
            v, i = _pv(s, i)
            items.append(v)
            i = _ws(s, i)
            if s[i] == "}":
                return items, i + 1
            if s[i] != ",":
                raise ValueError(f"expected , at {i}")
            i += 1
    if s[i] == "[":
        i += 1
        rec = {}
        while True:
            i = _ws(s, i)
            m = re.match(r"(\w+)\s*\|->", s[i:])
            if not m:
                raise ValueError("record field")
            i += m.end()
            v, i = _pv(s, i)
            rec[m.group(1)] = v
            i = _ws(s, i)
            if s[i] == "]":
                return rec, i + 1
            if s[i] != ",":
                raise ValueError(f"expected , at {i}")
            i += 1
    if s[i] == '"':
        j = i + 1
        buf = []
        while s[j] != '"':
            if s[j] == "\\":
                j += 1
            buf.append(s[j])
            j += 1
        return "".join(buf), j + 1
    m = re.match(r"-?\d+", s[i:])
    if m:
        return int(m.group(0)), i + m.end()
    m = re.match(r"TRUE|FALSE", s[i:])
    if m:
        return m.group(0) == "TRUE", i + m.end()
    m = re.match(r"\w+", s[i:])
    if m:
        return m.group(0), i + m.end()
    raise ValueError(f"cannot parse at {i}: {s[i:i+20]}")


def run(module, cfg, env=None, workers=1, heap="3g", timeout=3600, extra=(), simulate=None, depth=None,
        seed=None, deque=False, coverage=False, cwd=None):
    """Run TLC on spec/<module>.tla with config text `cfg` (a string).  Returns TlcResult."""
    os.makedirs(SCRATCH, exist_ok=True)
    work = tempfile.mkdtemp(prefix="tlc_", dir=SCRATCH)
    cfg_path = os.path.join(work, module + ".cfg")
    with open(cfg_path, "w") as f:
        f.write(cfg)
    cmd = ["java", "-XX:+UseParallelGC", f"-Xmx{heap}", "-Xss16m", "-DTLA-Library=" + SPEC_DIR]
    if deque:
        cmd.append("-Dtlc2.tool.queue.IStateQueue=StateDeque")
    cmd += ["-cp", JAR, "tlc2.TLC", "-workers", str(workers), "-metadir", os.path.join(work, "meta"),
            "-noGenerateSpecTE", "-config", cfg_path]
    if simulate:
        cmd += ["-simulate", simulate]
    if depth:
        cmd += ["-depth", str(depth)]
    if seed is not None:
        cmd += ["-seed", str(seed)]
    if coverage:
        cmd += ["-coverage", "1"]
    cmd += list(extra)
    cmd.append(os.path.join(SPEC_DIR, module + ".tla"))
    e = dict(os.environ)
    e.pop("JAVA_TOOL_OPTIONS", None)
    if env:
        e.update({k: str(v) for k, v in env.items()})
    t0 = time.time()
    try:
        p = subprocess.run(cmd, cwd=cwd or work, env=e, stdout=subprocess.PIPE, stderr=subprocess.STDOUT,
                           timeout=timeout, text=True, errors="replace")
        out, rc = p.stdout, p.returncode
    except subprocess.TimeoutExpired as ex:
        out = (ex.stdout or b"").decode("utf-8", "replace") if isinstance(ex.stdout, bytes) else (ex.stdout or "")
        out += "\nTLC-TIMEOUT\n"
        rc = 124
    finally:
        pass
    res = TlcResult(out, rc, time.time() - t0)
    res.workdir = work
    shutil.rmtree(work, ignore_errors=True)
    return res
